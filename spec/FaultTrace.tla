------------------------------ MODULE FaultTrace ------------------------------
(***************************************************************************)
(* C09: fault enumeration of REAL generations.  For a recorded fault-free  *)
(* run ("base") the same source bytes are replayed with an error at read k *)
(* after j bytes ("error") or with short successful deliveries from read k *)
(* on ("short").  In the specification (Draw!ReadFail, CharGen!DrawFault,  *)
(* WordGen!DrawFault) a failing read leads to the terminal state "panic"   *)
(* from which nothing is returned, and Draw!ReadShort changes nothing but  *)
(* the byte count: so an "error" run may only end in panic/error without a *)
(* password, and a "short" run returns what the base run did (or aborts).   *)
(***************************************************************************)
EXTENDS TraceIO
VARIABLES l, bad, done, stats
vars == <<l, bad, done, stats>>

Whys(e) ==
  IF e.op # "fault" THEN <<"H:unknown-op">>
  ELSE IF e.mode = "base" THEN
    <<IF e.res.kind = "ok" /\ e.reads = 0 /\ e.words > 0 THEN "H:base-run-read-nothing" ELSE "ok">>
  ELSE IF e.mode = "rerun" THEN
    \* the same recipe on the same source bytes, in another process with another environment, some time later
    <<IF e.same # 1 THEN "P:C09:same-source-bytes-gave-a-different-result-in-another-process-or-at-another-time" ELSE "ok">>
  ELSE IF e.mode = "error" THEN
    <<IF e.res.kind \notin {"panic", "err"} THEN "P:C09:a-password-was-returned-although-the-random-source-failed" ELSE "ok",
      IF e.res.kind = "err" THEN "S:source-failure-surfaced-as-an-error-value-instead-of-a-panic" ELSE "ok">>
  ELSE
    \* short successful reads: the same choices (Draw!ReadShort) - or, by the property's second sentence, an abort without a password
    \* ("fewer bytes than requested at any read ... generation aborts"): a DIFFERENT PASSWORD is the violation
    <<IF e.same # 1 /\ e.res.kind \notin {"panic", "err"} THEN "P:C09:result-depends-on-how-the-source-chunks-its-reads" ELSE "ok",
      IF e.same # 1 /\ e.res.kind \in {"panic", "err"} THEN "S:a-short-read-aborts-the-generation-instead-of-being-completed" ELSE "ok">>

RECURSIVE BadOf(_,_,_)
BadOf(line, ws, i) == IF i > Len(ws) THEN <<>>
                      ELSE (IF ws[i] = "ok" THEN <<>> ELSE <<Bad(line, ws[i])>>) \o BadOf(line, ws, i+1)
Init == l = 1 /\ bad = <<>> /\ done = FALSE /\ stats = [base |-> 0, error |-> 0, short |-> 0, rerun |-> 0]
Step == /\ l <= NLines
        /\ LET e == Trace[l] IN
             /\ bad' = bad \o BadOf(l, Whys(e), 1)
             /\ stats' = IF e.op = "fault" /\ e.mode \in {"base", "error", "short", "rerun"} THEN [stats EXCEPT ![e.mode] = @ + 1] ELSE stats
        /\ l' = l + 1 /\ UNCHANGED done
Finish == /\ l = NLines + 1 /\ ~done /\ WriteResult(bad, stats) /\ done' = TRUE /\ UNCHANGED <<l, bad, stats>>
Next == Step \/ Finish
Spec == Init /\ [][Next]_vars
=============================================================================
