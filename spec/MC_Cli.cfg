SPECIFICATION Spec
INVARIANTS ParseOK Defaults
CHECK_DEADLOCK FALSE
