CONSTANTS
  Words <- MCWords
  Title <- MCTitle
  MaxIn = 4
  UncapCountedDuringPass = FALSE
SPECIFICATION Spec
INVARIANTS KeptIsSpec UncapIsSpec ErrOnlyForEmpty NoticeIsACount
PROPERTIES InputUntouched
CHECK_DEADLOCK FALSE
