------------------------------- MODULE Gen_Hist -------------------------------
(***************************************************************************)
(* spec -> code for C15: every history of up to MaxSteps API steps over    *)
(* two character recipes - calls and caller-side updates of every public   *)
(* field over a small value universe (values chosen so that stale derived  *)
(* state would be visible: a class excluded entirely, a custom set split   *)
(* at a blank) - written as replay scenarios for the history driver, which *)
(* appends a final call on each recipe.                                    *)
(***************************************************************************)
EXTENDS Integers, Sequences, FiniteSets, TLC, Json, IOUtils, SequencesExt
CONSTANT MaxSteps
Objs == {0, 1}
Digits10 == <<48, 49, 50, 51, 52, 53, 54, 55, 56, 57>>
Steps ==
  {[op |-> "call", obj |-> o, paths |-> 2] : o \in Objs}
  \cup {[op |-> "set", obj |-> o, field |-> "len", ival |-> v] : o \in Objs, v \in {1, 3}}
  \cup {[op |-> "set", obj |-> o, field |-> f, ival |-> v] : o \in Objs, f \in {"allow", "require", "exclude"}, v \in {0, 4}}
  \cup {[op |-> "set", obj |-> o, field |-> "requireSets", sets |-> s] : o \in Objs, s \in {<<>>, <<<<97, 32, 98>>>>, <<<<97>>, <<98>>>>}}
  \cup {[op |-> "set", obj |-> o, field |-> "excludeChars", cps |-> c] : o \in Objs, c \in {<<>>, Digits10}}
  \* the caller configures another attempt limit (Process!SetLimits): the refusal decision of the next call follows it
  \cup {[op |-> "setlimits", obj |-> 0, ival |-> v] : v \in {5, 200, 2000}}
RECURSIVE SeqsOver(_,_)
SeqsOver(S, n) == IF n = 0 THEN {<<>>} ELSE SeqsOver(S, n-1) \cup {Append(s, x) : s \in {t \in SeqsOver(S, n-1) : Len(t) = n-1}, x \in S}
\* only histories that contain a call followed later by an update or another call (the others say nothing about history)
Interesting(h) == \E i \in DOMAIN h : h[i].op = "call"
Hists == {h \in SeqsOver(Steps, MaxSteps) : Len(h) >= 2 /\ Interesting(h)}
ASSUME PrintT(<<"histories", Cardinality(Hists)>>)
ASSUME ndJsonSerialize(IOEnv.VERIF_GEN_OUT, SetToSeq({[steps |-> h] : h \in Hists}))
VARIABLE x
Init == x = 0
Next == UNCHANGED x
Spec == Init /\ [][Next]_x
=============================================================================
