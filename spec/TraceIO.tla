------------------------------- MODULE TraceIO -------------------------------
(* Shared plumbing of all trace specifications: the recorded NDJSON trace    *)
(* (path in the environment variable VERIF_TRACE) and the verdict file       *)
(* (VERIF_RESULT) that the runner reads back.                                *)
EXTENDS Integers, Sequences, TLC, Json, IOUtils

Trace == ndJsonDeserialize(IOEnv.VERIF_TRACE)
NLines == Len(Trace)

\* why-strings starting with "prop:" contradict a listed property; "shape:"
\* ones only say the code no longer has the shape the specification records.
Bad(line, why) == [l |-> line, why |-> why]

WriteResult(bad, extra) ==
  JsonSerialize(IOEnv.VERIF_RESULT, [lines |-> NLines, bad |-> bad, extra |-> extra])
=============================================================================
