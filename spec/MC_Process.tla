----------------------------- MODULE MC_Process -----------------------------
(* Process.tla over 2 goroutines x 2 calls, three recipes of which two share a memo key, three limit values. *)
EXTENDS Process, TLC
CONSTANTS r1, r2, r3, k1, k2, l1, l2, l3
MCKeyOf == (r1 :> k1) @@ (r2 :> k1) @@ (r3 :> k2)
MCRaised == (l1 :> l2) @@ (l2 :> l3) @@ (l3 :> l3)
=============================================================================
