----------------------------- MODULE DyadicLog2 -----------------------------
(***************************************************************************)
(* An integer-only, outward-rounded bracket of log2 of a BigNat:           *)
(*    Log2Lo(N) <= log2 N <= Log2Hi(N),  width <= 4 * 2^-K.                *)
(* Shift-and-square on P-bit mantissas; every rounding in Lo is downward,  *)
(* every rounding in Hi upward.  A value is <<ip, f>> = ip + f / 2^K.      *)
(* Also: comparison of a float32 (exact dyadic m * 2^e) with a bracket,    *)
(* with a tolerance in units of the float's own ulp.                       *)
(***************************************************************************)
EXTENDS Integers, Sequences
B == 32768
INSTANCE BigNat

P == 60   \* mantissa fractional bits
K == 30   \* output fractional bits
TwoP1 == Shl(One, P+1)

MantLo(N) == LET e == BitLen(N)-1 IN IF e <= P THEN Shl(N, P-e) ELSE Shr(N, e-P)
MantHi(N) == LET e == BitLen(N)-1 IN
             IF e <= P THEN Shl(N, P-e)
             ELSE IF LowBitsNonZero(N, e-P) THEN Add(Shr(N, e-P), One) ELSE Shr(N, e-P)
CeilShr(a, s) == IF LowBitsNonZero(a, s) THEN Add(Shr(a, s), One) ELSE Shr(a, s)

RECURSIVE LoDigits(_,_,_), HiDigits(_,_,_)
LoDigits(m, j, acc) ==
  IF j = K THEN acc
  ELSE LET sq == Shr(Mul(m, m), P) IN
       IF Cmp(sq, TwoP1) >= 0 THEN LoDigits(Shr(sq, 1), j+1, 2*acc+1) ELSE LoDigits(sq, j+1, 2*acc)
HiDigits(m, j, acc) ==
  IF j = K THEN acc + 1
  ELSE LET sq == CeilShr(Mul(m, m), P) IN
       IF Cmp(sq, TwoP1) >= 0 THEN HiDigits(CeilShr(sq, 1), j+1, 2*acc+1) ELSE HiDigits(sq, j+1, 2*acc)

\* N >= 1.  <<integer part, fraction * 2^K>>; the Hi fraction may reach 2^K (carry)
Log2Lo(N) == <<BitLen(N)-1, LoDigits(MantLo(N), 0, 0)>>
Log2Hi(N) == IF IsPow2(N) THEN <<BitLen(N)-1, 0>> ELSE <<BitLen(N)-1, HiDigits(MantHi(N), 0, 0)>>
\* exact powers of two have an exact logarithm
Log2LoX(N) == IF IsPow2(N) THEN <<BitLen(N)-1, 0>> ELSE Log2Lo(N)

\* ---- scaled comparisons: everything times 2^K as BigNat ----
TwoK == Pow2Int(K)
ScaledOf(x) == Add(Shl(FromInt(x[1]), K), FromInt(x[2]))        \* <<ip, f>> * 2^K
\* float m * 2^e (m < 2^24, e >= -K): value * 2^K
ScaledFloat(m, e) == Shl(FromInt(m), e + K)
\* ulp of the float32 m*2^e (m odd-normalised, value >= 2^-6): 2^(floor(log2 v) - 23), times 2^K
UlpScaled(m, e) == Shl(One, (IntBits(m) + e - 1) - 23 + K)
\* is  lo - tol*ulp <= v <= hi + tol*ulp ?
WithinUlps(m, e, lo, hi, tol) ==
  LET v == ScaledFloat(m, e)
      t == MulSmall(UlpScaled(m, e), tol)
  IN  /\ Le(ScaledOf(lo), Add(v, t))
      /\ Le(v, Add(ScaledOf(hi), t))
\* the same with the tolerance in 1/1024 ulp (values >= 8, where an ulp is at least 2^10 units of the 2^-K scale; below that one whole ulp)
WithinUlpsFine(m, e, lo, hi, tol1024) ==
  IF (IntBits(m) + e - 1) - 23 + K < 10 THEN WithinUlps(m, e, lo, hi, 1)
  ELSE LET v == ScaledFloat(m, e)
           t == Shl(One, (IntBits(m) + e - 1) - 23 + K - 10)          \* ulp / 1024
           tt == MulSmall(t, tol1024)
       IN  /\ Le(ScaledOf(lo), Add(v, tt))
           /\ Le(v, Add(ScaledOf(hi), tt))
\* v <= hi + tol*ulp  (never overstates)
NotAbove(m, e, hi, tol) == Le(ScaledFloat(m, e), Add(ScaledOf(hi), MulSmall(UlpScaled(m, e), tol)))

\* log2 of a product/quotient of brackets
AddLo(a, b) == <<a[1] + b[1] + ((a[2] + b[2]) \div TwoK), (a[2] + b[2]) % TwoK>>
\* a - b for a >= b (componentwise borrow)
SubPair(a, b) == IF a[2] >= b[2] THEN <<a[1] - b[1], a[2] - b[2]>> ELSE <<a[1] - b[1] - 1, a[2] + TwoK - b[2]>>
\* x * k for native k >= 0
RECURSIVE MulPair(_,_)
MulPair(x, k) == IF k = 0 THEN <<0, 0>> ELSE AddLo(x, MulPair(x, k-1))
=============================================================================
