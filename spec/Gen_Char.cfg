CONSTANTS
  NU = 3
  MaxLen = 2
SPECIFICATION Spec
CHECK_DEADLOCK FALSE
