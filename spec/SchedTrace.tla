------------------------------ MODULE SchedTrace ------------------------------
(***************************************************************************)
(* C14, deterministic part: the REAL library executed under interleavings  *)
(* generated from the specification (Gen_Sched), with the draw hook as the *)
(* scheduler gate.  Api!ResultIsFunctionOfFields: whatever the             *)
(* interleaving, a call returns what the same call returns when made alone *)
(* with the same choices.  "stray" counts reads of the random source that  *)
(* no parked draw accounted for.                                           *)
(***************************************************************************)
EXTENDS TraceIO
VARIABLES l, bad, done, stats
vars == <<l, bad, done, stats>>
Whys(e) ==
  IF e.op # "sched" THEN <<"H:unknown-op">>
  ELSE
  <<IF \E i \in DOMAIN e.workers : e.workers[i].got.kind \in {"panic", "stuck"} THEN "P:C14:a-call-panicked-or-hung-under-an-interleaving" ELSE "ok",
    \* (only when every read of the source was served to a parked draw: with stray reads - words fetched ahead of their draws -
    \* the scheduler cannot give the same choices to the same call, and the comparison says nothing)
    IF e.stray = 0 /\ \E i \in DOMAIN e.workers : e.workers[i].same # 1 /\ e.workers[i].got.kind \notin {"panic", "stuck"}
      THEN "P:C14:a-calls-result-under-an-interleaving-differs-from-the-same-call-made-alone" ELSE "ok",
    IF e.stray > 0 THEN "S:random-source-read-outside-an-announced-draw" ELSE "ok",
    IF \E i \in DOMAIN e.workers : e.workers[i].draws # e.workers[i].expDraws THEN "S:number-of-draws-differs-under-the-interleaving" ELSE "ok">>
RECURSIVE BadOf(_,_,_)
BadOf(line, ws, i) == IF i > Len(ws) THEN <<>>
                      ELSE (IF ws[i] = "ok" THEN <<>> ELSE <<Bad(line, ws[i])>>) \o BadOf(line, ws, i+1)
Init == l = 1 /\ bad = <<>> /\ done = FALSE /\ stats = [runs |-> 0, calls |-> 0]
Step == /\ l <= NLines
        /\ LET e == Trace[l] IN
             /\ bad' = bad \o BadOf(l, Whys(e), 1)
             /\ stats' = [runs |-> stats.runs + 1, calls |-> stats.calls + Len(e.workers)]
        /\ l' = l + 1 /\ UNCHANGED done
Finish == /\ l = NLines + 1 /\ ~done /\ WriteResult(bad, stats) /\ done' = TRUE /\ UNCHANGED <<l, bad, stats>>
Next == Step \/ Finish
Spec == Init /\ [][Next]_vars
=============================================================================
