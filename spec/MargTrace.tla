------------------------------- MODULE MargTrace -------------------------------
(***************************************************************************)
(* Sampled marginals of the REAL generators, with no knowledge of how the  *)
(* code consumes the random source (no draw hook, no scripted words): N    *)
(* passwords are generated from a seeded pseudo-random byte stream and the *)
(* choice made at every position is counted.  C02 / C04 prescribe the law  *)
(* of every such choice: a character position of a recipe without          *)
(* requirements, and the word at a position of a wordlist password, are    *)
(* uniform over the n symbols; adjacent positions are independent; under   *)
(* `random' a position is capitalised with probability 1/2, under `one'    *)
(* each position is THE capitalised one with probability 1/L.              *)
(*                                                                         *)
(* A count c of an event of probability p = s/n in N independent samples   *)
(* satisfies  |c - Np| <= sqrt(3 t N p)  except with probability           *)
(* 2 exp(-t) (Chernoff, for 3t <= Np).  With t = 80 that is 4e-35 per      *)
(* count: over the few thousand counts of a check still below 1e-30.  A    *)
(* count outside the bound is reported as a violation; this is the only    *)
(* rule of the framework that is not exact, and it is used for what the    *)
(* exact rules cannot reach: code whose reads cannot be attributed to      *)
(* single choices (words fetched ahead, bits taken from a shared block).   *)
(* In integers:  (c n - N s)^2 <= 240 N n s,  checked over BigNat.         *)
(***************************************************************************)
EXTENDS TraceIO, FiniteSets
B == 32768
INSTANCE BigNat

VARIABLES l, bad, done, stats
vars == <<l, bad, done, stats>>

T3 == 240       \* 3 t
AbsDiff(a, b) == IF Le(a, b) THEN Sub(b, a) ELSE Sub(a, b)
\* count c of an event with s of nn equally likely outcomes, in N samples
Within(c, s, nn, N) ==
  LET d == AbsDiff(Mul(FromInt(c), nn), Mul(FromInt(N), FromInt(s)))
  IN Le(Mul(d, d), Mul(Mul(MulSmall(FromInt(N), T3), FromInt(s)), nn))
Decidable(s, nn, N) == Le(MulSmall(nn, T3), Mul(FromInt(N), FromInt(s)))        \* 3t <= N p
BinSize(n, b) == Cardinality({i \in 0..(n-1) : i % 8 = b})
Count(c, s, nn, N) == IF s = 0 THEN (IF c = 0 THEN "ok" ELSE "impossible")
                      ELSE IF ~Decidable(s, nn, N) THEN "ok"
                      ELSE IF Within(c, s, nn, N) THEN "ok" ELSE "off"

MargWhys(e) ==
  LET P == IF e.kind = "char" THEN "P:C02:" ELSE "P:C04:"
      n == e.n
      N == e.N
      nn == FromInt(n)
      posBad == {p \in DOMAIN e.mod8 : \E b \in 0..7 : Count(e.mod8[p][b+1], BinSize(n, b), nn, N) # "ok"}
      pairBad == {p \in DOMAIN e.pair : \E a \in 0..7, b \in 0..7 :
                    Count(e.pair[p][8*a + b + 1], BinSize(n, a) * BinSize(n, b), Mul(nn, nn), N) # "ok"}
      fullBad == {p \in DOMAIN e.hist : \E i \in DOMAIN e.hist[p] : Count(e.hist[p][i], 1, nn, N) # "ok"}
      capBad == IF e.cap = "random" THEN {p \in DOMAIN e.caps : Count(e.caps[p], 1, FromInt(2), N) # "ok"}
                ELSE IF e.cap = "one" THEN {p \in DOMAIN e.caps : Count(e.caps[p], 1, FromInt(e.L), N) # "ok"}
                ELSE {}
  IN
  <<IF N < 1000 THEN "H:too-few-samples" ELSE "ok",
    IF posBad # {} \/ fullBad # {}
      THEN P \o "the-choice-at-a-position-is-not-uniform-over-the-alphabet-or-list(sampled,-chance-of-a-false-report-below-1e-30)" ELSE "ok",
    IF pairBad # {}
      THEN P \o "choices-at-adjacent-positions-are-not-independent(sampled,-chance-of-a-false-report-below-1e-30)" ELSE "ok",
    IF capBad # {}
      THEN "P:C04:capitalised-positions-do-not-follow-the-scheme's-law(sampled,-chance-of-a-false-report-below-1e-30)" ELSE "ok",
    IF e.foreign > 0 THEN P \o "a-symbol-outside-the-alphabet-or-list-was-generated" ELSE "ok"
  >>

Whys(e) == IF e.op = "marg" THEN MargWhys(e) ELSE IF e.op = "skip" THEN <<"ok">> ELSE <<"H:unknown-op">>

RECURSIVE BadOf(_,_,_)
BadOf(line, ws, i) == IF i > Len(ws) THEN <<>>
                      ELSE (IF ws[i] = "ok" THEN <<>> ELSE <<Bad(line, ws[i])>>) \o BadOf(line, ws, i+1)
Init == l = 1 /\ bad = <<>> /\ done = FALSE /\ stats = [marg |-> 0]
Step == /\ l <= NLines
        /\ LET e == Trace[l] IN
             /\ bad' = bad \o BadOf(l, Whys(e), 1)
             /\ stats' = [marg |-> stats.marg + (IF e.op = "marg" THEN 1 ELSE 0)]
        /\ l' = l + 1 /\ UNCHANGED done
Finish == /\ l = NLines + 1 /\ ~done /\ WriteResult(bad, stats) /\ done' = TRUE /\ UNCHANGED <<l, bad, stats>>
Next == Step \/ Finish
Spec == Init /\ [][Next]_vars
=============================================================================
