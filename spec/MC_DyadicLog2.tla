---------------------------- MODULE MC_DyadicLog2 ----------------------------
(* Self-check of the log2 bracket: exact on powers of two, ordered, narrow,  *)
(* monotone, and bracketing known values (log2 3, log2 10, log2 62 to 2^-30). *)
EXTENDS Integers, Sequences, TLC
INSTANCE DyadicLog2
CONSTANT MaxN
VARIABLE x
\* two levels so that the workers share the work: x = -k is the seed of the residue class k mod 16
Init == x \in {-k : k \in 0..15}
Next == x <= 0 /\ x' \in {v \in 1..MaxN : v % 16 = -x}
Spec == Init /\ [][Next]_x
AsScaled(p) == p[1] * 1073741824 + p[2]     \* only for ip <= 1 (fits 31 bits)
Bracket == x <= 0 \/
  LET N == FromInt(x)
      lo == Log2LoX(N)
      hi == Log2Hi(N)
  IN  /\ Le(ScaledOf(lo), ScaledOf(hi))
      /\ Le(ScaledOf(hi), Add(ScaledOf(lo), FromInt(4)))
      /\ lo[1] = IntBits(x) - 1
      /\ (IsPow2Int(x) => lo = <<IntBits(x)-1, 0>> /\ hi = lo)
      /\ (x > 1 => Le(ScaledOf(Log2Hi(FromInt(x-1))), Add(ScaledOf(lo), FromInt(4))))  \* monotone up to width
      \* known values: frac(log2 3)*2^30 = 628098702.50, frac(log2 10)*2^30 = 345667659.80, frac(log2 62)*2^30 = 1024560486.77
      /\ (x = 3  => lo[2] <= 628098702 /\ hi[2] >= 628098703)
      /\ (x = 10 => lo[2] <= 345667659 /\ hi[2] >= 345667660)
      /\ (x = 62 => lo[2] <= 1024560486 /\ hi[2] >= 1024560487)
      \* squares: log2(x^2) = 2 log2 x, brackets must overlap
      /\ LET s == Mul(N, N)
             l2 == MulPair(lo, 2)
             h2 == MulPair(hi, 2)
         IN  /\ Le(ScaledOf(Log2LoX(s)), Add(ScaledOf(h2), FromInt(1)))
             /\ Le(ScaledOf(l2), Add(ScaledOf(Log2Hi(s)), FromInt(1)))
=============================================================================
