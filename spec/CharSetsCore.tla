------------------------------ MODULE CharSetsCore ----------------------------
(***************************************************************************)
(* The recursion-free core (so that tlapm can read it; proofs in            *)
(* CharSetsProofs.tla).                                                    *)
(* What a character recipe MEANS (char_gen.go buildCharacterList,          *)
(* char_sets.go requireFilter, char_strength.go n()).                      *)
(*                                                                         *)
(* A character is an integer: the Unicode code point, or 1114112+b for an  *)
(* invalid UTF-8 byte b (Go treats each such byte as one character).       *)
(* A recipe is a record                                                    *)
(*   [len, allow, require, exclude : Int (class flag bits),                *)
(*    allowChars, excludeChars : Seq(Char), requireSets : Seq(Seq(Char))]  *)
(* exactly the public fields of spg.CharRecipe.                            *)
(***************************************************************************)
EXTENDS Integers, Sequences, FiniteSets

\* ---- the documented built-in classes (C16) ----
Uppers == 1
Lowers == 2
Digits == 4
Symbols == 8
Ambiguous == 16
Letters == 3
AllClasses == 15
ClassFlags == {Uppers, Lowers, Digits, Symbols, Ambiguous}

ClassChars(f) ==
  CASE f = Uppers    -> 65..90                      \* A-Z
    [] f = Lowers    -> 97..122                     \* a-z
    [] f = Digits    -> 48..57                      \* 0-9
    [] f = Symbols   -> {33, 64, 46, 45, 95, 42}    \* ! @ . - _ *
    [] f = Ambiguous -> {48, 79, 49, 73, 108, 53, 83} \* 0 O 1 I l 5 S

HasBit(x, f) == (x \div f) % 2 = 1
FlagChars(flags) == UNION {ClassChars(f) : f \in {g \in ClassFlags : HasBit(flags, g)}}
SeqSet(s) == {s[i] : i \in DOMAIN s}

\* ---- expansion ----
Excluded(r) == FlagChars(r.exclude) \cup SeqSet(r.excludeChars)
AllowedRaw(r) == FlagChars(r.allow) \cup SeqSet(r.allowChars)

\* The required sets as a BAG (sequence of sets): the non-empty custom strings in order, then one
\* set per required class flag; each minus the excluded characters.  Equal sets stay separate.
RequiredFlagSeq(r) ==
  LET fs == <<Uppers, Lowers, Digits, Symbols, Ambiguous>>
  IN  SelectSeq(fs, LAMBDA f : HasBit(r.require, f))
ReqSets(r) ==
  LET custom == SelectSeq(r.requireSets, LAMBDA s : Len(s) > 0)
      fl == RequiredFlagSeq(r)
  IN  [i \in 1..(Len(custom) + Len(fl)) |->
         (IF i <= Len(custom) THEN SeqSet(custom[i]) ELSE ClassChars(fl[i - Len(custom)])) \ Excluded(r)]

ReqUnion(r) == UNION {ReqSets(r)[i] : i \in DOMAIN ReqSets(r)}
\* allowed, not excluded (exclusion always wins): the characters a password may contain
Alphabet(r) == (AllowedRaw(r) \ Excluded(r)) \cup ReqUnion(r)
\* a required set emptied by exclusion is ignored by the filter (char_sets.go: rset.size() > 0)
LiveReq(r) == {i \in DOMAIN ReqSets(r) : ReqSets(r)[i] # {}}
HasEmptiedReq(r) == LiveReq(r) # DOMAIN ReqSets(r)

\* ---- validity of a candidate (sequence of characters) ----
Satisfies(r, cand) == \A i \in LiveReq(r) : \E p \in DOMAIN cand : cand[p] \in ReqSets(r)[i]
IsValid(r, cand) == /\ Len(cand) = r.len
                    /\ \A p \in DOMAIN cand : cand[p] \in Alphabet(r)
                    /\ Satisfies(r, cand)
\* only for tiny alphabets and lengths
ValidStrings(r) == {s \in [1..r.len -> Alphabet(r)] : Satisfies(r, s)}
=============================================================================
