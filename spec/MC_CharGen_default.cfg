CONSTANTS
  Recipes <- MCRecipes
  MaxTrialsSet = {2}
  FailRateOne = FALSE
  MaxLen = 2
SPECIFICATION Spec
INVARIANTS TypeOK OutValid NoOutputUnlessDone TrialsBounded ErrIff GenerousRecipeNeverRefused
PROPERTIES PanicIsTerminal RejectDiscardsCandidate RecipeNeverWritten
CHECK_DEADLOCK FALSE
