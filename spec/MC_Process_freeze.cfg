CONSTANTS
  r1 = r1
  r2 = r2
  r3 = r3
  k1 = k1
  k2 = k2
  l1 = l1
  l2 = l2
  l3 = l3
  Goroutines = {g1, g2}
  Recipes = {r1, r2, r3}
  Keys = {k1, k2}
  Limits = {l1, l2, l3}
  KeyOf <- MCKeyOf
  Raised <- MCRaised
  MaxCalls = 2
  MaxSets = 2
  FreezeLimits = TRUE
  RaiseLimits = FALSE
  MemoByKey = FALSE
SPECIFICATION Spec
INVARIANTS TypeOK ResultFollowsRecipeAndConfiguredLimits
CHECK_DEADLOCK FALSE
