------------------------------ MODULE Gen_Tokens ------------------------------
(* spec -> code: the decode universe (every index of up to MaxIdx bytes over   *)
(* Bytes x every abstract string up to MaxStr) and the encode universe (every  *)
(* sequence of up to MaxToks tokens with lengths 0..MaxTokLen and types         *)
(* separator/atom/7) written as replay scenarios.  Abstract characters 1..3     *)
(* are mapped by the runner to a 1-byte, a 2-byte and a 4-byte character.       *)
EXTENDS Integers, Sequences, FiniteSets, TLC, Json, IOUtils, SequencesExt
CONSTANTS MaxToks, MaxTokLen, MaxIdx, MaxStr, Bytes
Chars == {1, 2, 3}
RECURSIVE SeqsOver(_,_)
SeqsOver(S, n) == IF n = 0 THEN {<<>>} ELSE SeqsOver(S, n-1) \cup {Append(s, x) : s \in {t \in SeqsOver(S, n-1) : Len(t) = n-1}, x \in S}
TokenValues == {[v |-> s, t |-> ty] : s \in SeqsOver({1, 2}, MaxTokLen) \cup {<<3>>, <<1, 3>>}, ty \in {0, 1, 7}}
Enc == {[op |-> "rt", toks |-> ts] : ts \in SeqsOver(TokenValues, MaxToks) \ {<<>>}}
Dec == {[op |-> "dec", str |-> s, idx |-> ix] : s \in SeqsOver(Chars, MaxStr), ix \in SeqsOver(Bytes, MaxIdx)}
ASSUME PrintT(<<"scenarios", Cardinality(Enc), Cardinality(Dec)>>)
ASSUME ndJsonSerialize(IOEnv.VERIF_GEN_OUT, SetToSeq(Enc))
ASSUME ndJsonSerialize(IOEnv.VERIF_GEN_OUT2, SetToSeq(Dec))
VARIABLE x
Init == x = 0
Next == UNCHANGED x
Spec == Init /\ [][Next]_x
=============================================================================
