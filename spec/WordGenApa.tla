------------------------------ MODULE WordGenApa ------------------------------
(***************************************************************************)
(* The token assembly loop of WordGen.tla (word_gen.go: Generate) for      *)
(* UNBOUNDED Length (Apalache, inductive).  Length len >= 1 is symbolic;   *)
(* whether the separator produced for a gap is empty is chosen by the      *)
(* environment at every gap (a functional separator may return "" for one  *)
(* gap and a string for the next); the capitalisation scheme decides per   *)
(* position, also chosen by the environment within the scheme's shape      *)
(* (ncap counts capitalised atoms; oneScheme bounds it by 1).              *)
(* Proved for every length: exactly one atom per position, a separator     *)
(* token only strictly between two atoms and at most one per gap, never a  *)
(* leading or trailing separator, the last token an atom (C05), and under  *)
(* the `one' scheme never more than one capitalised atom.                  *)
(*   apalache-mc check --init=Init   --inv=IndInv --length=0               *)
(*   apalache-mc check --init=IndInv --inv=IndInv --length=1               *)
(***************************************************************************)
EXTENDS Integers
VARIABLES
  \* @type: Int;
  len,
  \* @type: Bool;
  oneScheme,
  \* @type: Str;
  pc,
  \* @type: Int;
  i,
  \* @type: Int;
  natoms,
  \* @type: Int;
  nseps,
  \* @type: Int;
  ncap,
  \* @type: Str;
  last,
  \* @type: Str;
  first
Init == /\ len \in 1..100000 /\ oneScheme \in BOOLEAN /\ pc = "word" /\ i = 0 /\ natoms = 0 /\ nseps = 0 /\ ncap = 0
        /\ last = "none" /\ first = "none"
\* position i: draw the word, title-case it or not, append the atom
EmitAtom(capit) == /\ pc = "word" /\ i < len
                   /\ (oneScheme /\ ncap >= 1 => ~capit)
                   /\ natoms' = natoms + 1 /\ ncap' = ncap + (IF capit THEN 1 ELSE 0)
                   /\ last' = "atom" /\ first' = (IF first = "none" THEN "atom" ELSE first)
                   /\ pc' = (IF i < len - 1 THEN "sep" ELSE "done")
                   /\ i' = i + 1
                   /\ UNCHANGED <<len, oneScheme, nseps>>
\* the gap after position i-1 (only when another word follows): call the separator source once; a token only if it is non-empty
EmitSep(empty) == /\ pc = "sep"
                  /\ nseps' = nseps + (IF empty THEN 0 ELSE 1)
                  /\ last' = (IF empty THEN last ELSE "sep")
                  /\ pc' = "word"
                  /\ UNCHANGED <<len, oneScheme, i, natoms, ncap, first>>
Next == \E b \in BOOLEAN : EmitAtom(b) \/ EmitSep(b)
IndInv ==
  /\ len \in 1..100000 /\ oneScheme \in BOOLEAN /\ pc \in {"word", "sep", "done"}
  /\ i \in 0..len /\ natoms = i /\ nseps \in 0..len /\ ncap \in 0..len /\ ncap <= natoms
  /\ last \in {"none", "atom", "sep"} /\ first \in {"none", "atom"}
  /\ (pc = "word" => i < len /\ nseps <= i /\ (i = 0 => nseps = 0 /\ last = "none" /\ first = "none") /\ (i > 0 => first = "atom"))
  /\ (pc = "sep" => i >= 1 /\ i < len /\ nseps <= i - 1 /\ last = "atom" /\ first = "atom")
  /\ (pc = "done" => i = len /\ natoms = len /\ nseps <= len - 1 /\ last = "atom" /\ first = "atom")     \* C05
  /\ (oneScheme => ncap <= 1)
=============================================================================
