------------------------------ MODULE DrawLemma ------------------------------
(***************************************************************************)
(* The arithmetic core of Draw.tla at the real width, for Apalache.        *)
(* For EVERY bound n in [1, 2^32) and every raw word: the accepted words   *)
(* [0,T) are in bijection with [0,T/n) x [0,n) via v = q*n + r, so every   *)
(* result r has exactly T/n accepted raw preimages (uniformity), T is a    *)
(* multiple of n, and more than half of all raw words are accepted.        *)
(* apalache-mc check --init=Init --next=Next --inv=Inv --length=0          *)
(***************************************************************************)
EXTENDS Integers
VARIABLES
  \* @type: Int;
  n,
  \* @type: Int;
  v,
  \* @type: Int;
  q,
  \* @type: Int;
  r
M == 4294967296
Pow2 == {1, 2, 4, 8, 16, 32, 64, 128, 256, 512, 1024, 2048, 4096, 8192, 16384, 32768, 65536,
         131072, 262144, 524288, 1048576, 2097152, 4194304, 8388608, 16777216, 33554432,
         67108864, 134217728, 268435456, 536870912, 1073741824, 2147483648}
T == IF n \in Pow2 THEN M ELSE (M-1) - ((M-1) % n)      \* accepted raw words are exactly 0..T-1
Init == n \in 1..(M-1) /\ v \in 0..(M-1) /\ q \in 0..(M-1) /\ r \in 0..(M-1)
Next == UNCHANGED <<n, v, q, r>>
Fwd == v < T => ((v \div n) < (T \div n) /\ (v % n) < n /\ (v \div n) * n + (v % n) = v)
Bwd == (q < (T \div n) /\ r < n) => (q*n + r < T /\ (q*n + r) % n = r /\ (q*n + r) \div n = q)
Struct == T % n = 0 /\ 2*T > M /\ T <= M
Inv == Fwd /\ Bwd /\ Struct
=============================================================================
