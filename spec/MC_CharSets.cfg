SPECIFICATION Spec
INVARIANT Theorems
CHECK_DEADLOCK FALSE
