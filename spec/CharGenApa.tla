------------------------------ MODULE CharGenApa ------------------------------
(***************************************************************************)
(* The retry loop of CharGen.tla for UNBOUNDED attempt budgets and lengths *)
(* (Apalache, inductive): MaxTrials mt >= 1 and Length len >= 1 are        *)
(* symbolic; whether a finished candidate satisfies the requirements is    *)
(* chosen by the environment.  Proved: attempts never exceed the budget,   *)
(* draws = (attempts-1)*Length + position <= MaxTrials*Length, a password  *)
(* is returned only after a complete candidate, and "exhausted" is         *)
(* reported only after exactly MaxTrials complete candidates.              *)
(*   apalache-mc check --init=Init   --inv=IndInv --length=0               *)
(*   apalache-mc check --init=IndInv --inv=IndInv --length=1               *)
(***************************************************************************)
EXTENDS Integers
VARIABLES
  \* @type: Int;
  mt,
  \* @type: Int;
  len,
  \* @type: Str;
  pc,
  \* @type: Int;
  trial,
  \* @type: Int;
  pos,
  \* @type: Int;
  draws
Init == mt \in 1..100000 /\ len \in 1..100000 /\ pc = "preflight" /\ trial = 0 /\ pos = 0 /\ draws = 0
StartTrial == pc = "preflight" /\ trial < mt /\ trial' = trial + 1 /\ pos' = 0 /\ pc' = "drawing" /\ UNCHANGED <<mt, len, draws>>
Exhausted == pc = "preflight" /\ trial >= mt /\ pc' = "exhausted" /\ UNCHANGED <<mt, len, trial, pos, draws>>
DrawChar == /\ pc = "drawing" /\ pos < len
            /\ pos' = pos + 1 /\ draws' = draws + 1
            /\ pc' = IF pos + 1 = len THEN "filter" ELSE "drawing"
            /\ UNCHANGED <<mt, len, trial>>
FilterAccept == pc = "filter" /\ pc' = "done" /\ UNCHANGED <<mt, len, trial, pos, draws>>
FilterReject == pc = "filter" /\ pc' = "preflight" /\ UNCHANGED <<mt, len, trial, pos, draws>>
Next == StartTrial \/ Exhausted \/ DrawChar \/ FilterAccept \/ FilterReject
IndInv ==
  /\ mt \in 1..100000 /\ len \in 1..100000
  /\ pc \in {"preflight", "drawing", "filter", "done", "exhausted"}
  /\ trial \in 0..mt /\ pos \in 0..len /\ draws \in Nat
  /\ (pc = "drawing" => trial >= 1 /\ pos < len /\ draws = (trial - 1) * len + pos)
  /\ (pc \in {"filter", "done"} => trial >= 1 /\ pos = len /\ draws = trial * len)
  /\ (pc = "preflight" => draws = trial * len /\ (trial = 0 \/ pos = len))
  /\ (pc = "exhausted" => trial = mt /\ draws = mt * len)
  /\ draws <= mt * len                                   \* C13: never more than the permitted number of attempts
=============================================================================
