------------------------------ MODULE MC_WordGen ------------------------------
EXTENDS WordGen
CONSTANT MaxLen
\* 1 polish -> 2 Polish; 3 one -> 4 One; 5 "4x" (uncapitalisable); 6 two -> 7 Two
MCTitle == [w \in 1..7 |-> CASE w = 1 -> 2 [] w = 2 -> 2 [] w = 3 -> 4 [] w = 4 -> 4 [] w = 5 -> 5 [] w = 6 -> 7 [] w = 7 -> 7]
Lists == {<<1, 3>>, <<3, 1, 6>>, <<1, 5>>, <<3, 2>>, <<5>>, <<1, 3, 6, 5>>}
SepKinds == {[f |-> FALSE, v |-> <<0>>], [f |-> FALSE, v |-> <<100>>], [f |-> TRUE, v |-> <<0>>],
         [f |-> TRUE, v |-> <<100, 101>>], [f |-> TRUE, v |-> <<100, 101, 102>>]}
Caps == {"none", "first", "all", "random", "one", "bogus"}
MCRecipes == { [kept |-> k, hasList |-> TRUE, len |-> L, cap |-> c, sepFunc |-> s.f, sepVals |-> s.v]
               : k \in Lists, L \in 0..MaxLen, c \in Caps, s \in SepKinds }
             \cup { [kept |-> <<>>, hasList |-> h, len |-> L, cap |-> "none", sepFunc |-> FALSE, sepVals |-> <<0>>]
                    : h \in BOOLEAN, L \in {0, 3} }
=============================================================================
