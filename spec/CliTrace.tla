------------------------------- MODULE CliTrace -------------------------------
(***************************************************************************)
(* Validates recorded runs of the REAL opgen binary against Cli.tla: exit  *)
(* status, number of standard-output lines, and that the printed line is a *)
(* password the described library recipe could have generated (CharSets /  *)
(* WordGen structure on concrete text) or its entropy to two decimals.     *)
(* The shipped lists (with their title-cased forms) are read from          *)
(* VERIF_AUX; lists given with --file travel with the event.               *)
(***************************************************************************)
EXTENDS TraceIO, Cli, DyadicLog2

Aux == ndJsonDeserialize(IOEnv.VERIF_AUX)
ListOf(name) == IF Aux[1].name = name THEN Aux[1] ELSE Aux[2]
SetOf(s) == {s[i] : i \in DOMAIN s}
ShippedWords == [words |-> SetOf(ListOf("words").words), titles |-> SetOf(ListOf("words").titles), n |-> Len(ListOf("words").words),
                 maxlen |-> ListOf("words").maxlen, allcap |-> TRUE]
ShippedSyll == [words |-> SetOf(ListOf("syllables").words), titles |-> SetOf(ListOf("syllables").titles), n |-> Len(ListOf("syllables").words),
                maxlen |-> ListOf("syllables").maxlen, allcap |-> TRUE]

VARIABLES l, bad, done, stats
vars == <<l, bad, done, stats>>

ArgsOf(e) == [sub |-> e.sub, flags |-> e.flags]

\* the word list a words command uses: kept words (after NewWordList's normalisation) and their title-cased forms
WordListOf(e) ==
  LET a == ArgsOf(e) IN
  IF LastVal(a.flags, "file", <<>>) # <<>> THEN
     LET ws == SetOf(e.file.words)
         TP == {<<e.file.words[i], e.file.titles[i]>> : i \in DOMAIN e.file.words}
         kept == ws \ {p[2] : p \in {q \in TP : q[2] # q[1]}}
         kp == {p \in TP : p[1] \in kept}
     IN [words |-> kept, titles |-> {p[2] : p \in kp}, n |-> Cardinality(kept), maxlen |-> e.file.maxlen,
         allcap |-> \A p \in kp : p[2] # p[1], ok |-> e.file.readable = 1 /\ ws # {}]
  ELSE IF LastVal(a.flags, "list", WORDS) = SYLLABLES THEN ShippedSyll @@ [ok |-> TRUE] ELSE ShippedWords @@ [ok |-> TRUE]

\* ---- is this line a password of the described wordlist recipe?  (WordGen!StructureOK by dynamic programming) ----
\* states after k atoms: <<position, number of title-cased atoms so far (capped at 2)>>
AtomEnds(line, wl, p, upper) ==
  {q \in (p+1)..(IF p + wl.maxlen < Len(line) THEN p + wl.maxlen ELSE Len(line)) :
      SubSeq(line, p+1, q) \in (IF upper THEN wl.titles ELSE wl.words)}
FormAllowed(cap, k, upper, c) ==
  CASE cap = "first" -> (upper <=> k = 0)
    [] cap = "all" -> upper
    [] cap = "random" -> TRUE
    [] cap = "one" -> (upper => c = 0)
    [] OTHER -> ~upper
SepEnds(line, sep, p) ==
  CASE sep.kind = "const" -> IF p < Len(line) /\ line[p+1] = sep.ch THEN {p+1} ELSE {}
    [] sep.kind = "digit" -> IF p < Len(line) /\ line[p+1] \in 48..57 THEN {p+1} ELSE {}
    [] OTHER -> {p}
RECURSIVE Reach(_,_,_,_,_,_,_)
Reach(line, wl, cap, sep, size, k, S) ==     \* S: set of <<pos, caps>> before atom k
  IF k = size THEN S
  ELSE LET step(st, up) == {<<q, IF up THEN (IF st[2] >= 1 THEN 2 ELSE 1) ELSE st[2]>> : q \in AtomEnds(line, wl, st[1], up)}
           afterAtom == UNION {UNION {step(st, up) : up \in {u \in BOOLEAN : FormAllowed(cap, k, u, st[2])}} : st \in S}
           next == IF k = size - 1 THEN afterAtom ELSE UNION {{<<q, st[2]>> : q \in SepEnds(line, sep, st[1])} : st \in afterAtom}
       IN IF next = {} THEN {} ELSE Reach(line, wl, cap, sep, size, k + 1, next)
IsWordPassword(line, wl, cap, sep, size) ==
  size >= 1 /\ \E st \in Reach(line, wl, cap, sep, size, 0, {<<0, 0>>}) : st[1] = Len(line) /\ (cap = "one" => st[2] = 1 \/ \E w \in wl.words : w \in wl.titles)

IsCharPassword(line, r) == IsValid(r, line)

\* ---- the entropy line: an optional sign, digits, '.', two digits ----
IsDecimal2(s) == LET n == Len(s) IN n >= 4 /\ s[n-2] = 46 /\ IsDigits(SubSeq(s, 1, n-3)) /\ IsDigits(SubSeq(s, n-1, n))
Hundredths(s) == LET n == Len(s) IN DigitsVal(SubSeq(s, 1, n-3), 0) * 100 + DigitsVal(SubSeq(s, n-1, n), 0)
\* printed value H/100 equals log2(N) to two decimals:  100*lo - 0.5 - slack <= H <= 100*hi + 0.5 + slack   (all times 2^K)
EntropyPrinted(s, N) ==
  IF N = <<>> THEN s = <<45, 73, 110, 102>>                          \* "-Inf"
  ELSE /\ IsDecimal2(s)
       /\ LET Hs == Shl(FromInt(Hundredths(s)), K)
              half == FromInt(Pow2Int(K-1) + Pow2Int(K-10))
              lo == IF IsPow2(N) THEN <<BitLen(N)-1, 0>> ELSE Log2Lo(N)
          IN /\ Le(MulSmall(ScaledOf(lo), 100), Add(Hs, half))
             /\ Le(Hs, Add(MulSmall(ScaledOf(Log2Hi(N)), 100), half))

CharCount(r) ==       \* exact count over BigNat (CharCount!CountValidBig inlined for the few class recipes of the CLI)
  LET live == LiveReq(r)
      term(S) == Pow(FromInt(AvoidSize(r, S)), r.len)
      RECURSIVE SumOver(_)
      SumOver(Ss) == IF Ss = {} THEN <<>> ELSE LET x == CHOOSE y \in Ss : TRUE IN Add(term(x), SumOver(Ss \ {x}))
  IN Sub(SumOver({T \in SUBSET live : Cardinality(T) % 2 = 0}), SumOver({T \in SUBSET live : Cardinality(T) % 2 = 1}))

WordCount(wl, cap, sep, size) ==
  LET capf == IF ~wl.allcap THEN One ELSE IF cap = "random" THEN Shl(One, size) ELSE IF cap = "one" THEN FromInt(size) ELSE One
      sepn == IF sep.kind = "digit" THEN FromInt(10) ELSE One
  IN Mul(Mul(Pow(FromInt(wl.n), size), capf), Pow(sepn, size - 1))

\* ---- verdicts ----
Whys(e) ==
  LET a == ArgsOf(e)
      out == e.out
  IN
  IF UsageError(a) \/ UnknownList(a) THEN
     <<IF e.exit = 2 THEN "ok" ELSE "P:C17:usage-error-did-not-exit-with-status-2",
       \* no stdout line is a password of the subcommand's default recipe
       IF \E i \in DOMAIN out : IsCharPassword(out[i], CharRecipeOf([sub |-> "characters", flags |-> <<>>]))
                               \/ IsWordPassword(out[i], ShippedWords, "none", [kind |-> "const", ch |-> 45], 4)
         THEN "P:C17:a-password-was-printed-on-a-usage-error" ELSE "ok">>
  ELSE IF a.sub = "characters" THEN
     LET r == CharRecipeOf(a)
         A == Cardinality(Alphabet(r))
         emptied == HasEmptiedReq(r)     \* a required class excluded entirely: the properties leave the outcome open (either exit 0 or 1)
         honourable == r.len >= 1 /\ A >= 1 /\ ~emptied
         cnt == IF honourable /\ r.len <= 64 THEN CharCount(r) ELSE <<>>
         den == IF honourable /\ r.len <= 64 THEN Pow(FromInt(A), r.len) ELSE One
         mustRefuse == r.len < 1 \/ A < 1 \/ (honourable /\ (cnt = <<>> \/ Le(MulSmall(cnt, 1000), MulSmall(den, 85))))
         mustAccept == honourable /\ cnt # <<>> /\ ~Lt(MulSmall(cnt, 1000), MulSmall(den, 110))
     IN IF WantsEntropy(a) THEN
          <<IF e.exit = 0 THEN "ok" ELSE "P:C17:--entropy-did-not-exit-0",
            IF r.len >= 1 /\ r.len <= 64 /\ A >= 1 /\ ~HasEmptiedReq(r)
               /\ ~(\E i \in DOMAIN out : EntropyPrinted(out[i], cnt) /\ \A j \in DOMAIN out : j # i => ~IsCharPassword(out[j], r))
              THEN "P:C17:--entropy-did-not-print-the-recipes-entropy-to-two-decimals" ELSE "ok",
            IF honourable /\ Len(out) # 1 THEN "P:C17:--entropy-printed-more-or-less-than-one-line" ELSE "ok",
            \* (the two-decimal rendering itself can be a string of the recipe's language - "26.96" for length 5 over digits and '.' -
            \*  so only a line that is NOT the entropy rendering counts)
            IF \E i \in DOMAIN out : IsCharPassword(out[i], r) /\ ~(r.len <= 64 /\ A >= 1 /\ EntropyPrinted(out[i], cnt))
              THEN "P:C17:a-password-was-printed-with---entropy" ELSE "ok">>
        ELSE
          <<IF mustAccept /\ e.exit # 0 THEN "P:C17:recipe-the-library-can-honour-did-not-exit-0" ELSE "ok",
            IF mustRefuse /\ e.exit # 1 THEN "P:C17:recipe-the-library-refuses-did-not-exit-1" ELSE "ok",
            IF e.exit \notin {0, 1} THEN "P:C17:unexpected-exit-status" ELSE "ok",
            IF e.exit = 0 /\ Len(out) # 1 THEN "P:C17:not-exactly-one-line-on-standard-output" ELSE "ok",
            IF e.exit = 0 /\ Len(out) >= 1 /\ ~IsCharPassword(out[Len(out)], r) THEN "P:C17:printed-password-is-not-one-the-described-recipe-could-generate" ELSE "ok",
            IF e.exit # 0 /\ \E i \in DOMAIN out : IsCharPassword(out[i], r) THEN "P:C17:a-password-was-printed-although-the-command-failed" ELSE "ok">>
  ELSE
     LET wl == WordListOf(e)
         cap == CapOf(a)
         sep == SepOf(a)
         size == SizeOf(a)
         honourable == wl.ok /\ size >= 1
     IN IF ~wl.ok THEN
          <<IF e.exit = 1 THEN "ok" ELSE "P:C17:unusable-word-list-file-did-not-exit-1",
            IF out # <<>> THEN "S:output-on-unusable-list" ELSE "ok">>
        ELSE IF WantsEntropy(a) THEN
          <<IF e.exit = 0 THEN "ok" ELSE "P:C17:--entropy-did-not-exit-0",
            IF size >= 1 /\ size <= 40 /\ ~(Len(out) = 1 /\ EntropyPrinted(out[1], WordCount(wl, cap, sep, size)))
              THEN "P:C17:--entropy-did-not-print-the-recipes-entropy-to-two-decimals-on-one-line" ELSE "ok">>
        ELSE
          <<IF honourable /\ e.exit # 0 THEN "P:C17:recipe-the-library-can-honour-did-not-exit-0" ELSE "ok",
            IF ~honourable /\ e.exit # 1 THEN "P:C17:recipe-the-library-refuses-did-not-exit-1" ELSE "ok",
            IF e.exit = 0 /\ Len(out) # 1 THEN "P:C17:not-exactly-one-line-on-standard-output" ELSE "ok",
            IF e.exit = 0 /\ Len(out) >= 1 /\ size <= 40 /\ ~IsWordPassword(out[Len(out)], wl, cap, sep, size)
              THEN "P:C17:printed-password-is-not-one-the-described-recipe-could-generate" ELSE "ok",
            IF e.exit # 0 /\ size >= 1 /\ size <= 40 /\ \E i \in DOMAIN out : IsWordPassword(out[i], wl, cap, sep, size)
              THEN "P:C17:a-password-was-printed-although-the-command-failed" ELSE "ok">>

RECURSIVE BadOf(_,_,_)
BadOf(line, ws, i) == IF i > Len(ws) THEN <<>>
                      ELSE (IF ws[i] = "ok" THEN <<>> ELSE <<Bad(line, ws[i])>>) \o BadOf(line, ws, i+1)
Init == l = 1 /\ bad = <<>> /\ done = FALSE /\ stats = [runs |-> 0, ok0 |-> 0]
Step == /\ l <= NLines
        /\ LET e == Trace[l] IN
             /\ bad' = bad \o BadOf(l, Whys(e), 1)
             /\ stats' = [runs |-> stats.runs + 1, ok0 |-> stats.ok0 + (IF e.exit = 0 THEN 1 ELSE 0)]
        /\ l' = l + 1 /\ UNCHANGED done
Finish == /\ l = NLines + 1 /\ ~done /\ WriteResult(bad, stats) /\ done' = TRUE /\ UNCHANGED <<l, bad, stats>>
Next == Step \/ Finish
Spec == Init /\ [][Next]_vars
=============================================================================
