--------------------------- MODULE CharSetsProofs ---------------------------
(***************************************************************************)
(* Unbounded theorems about the meaning of a character recipe, checked by  *)
(* the TLA+ proof system:  tlapm CharSetsProofs.tla                        *)
(***************************************************************************)
EXTENDS CharSetsCore

\* proved by tlapm for EVERY recipe record (no bound on alphabets, lengths or the number of required sets);
\* MC_CharSets checks the same statements by enumeration over the 2^15 flag triples
THEOREM ExclusionWinsAll == \A r : Alphabet(r) \cap Excluded(r) = {}
  BY DEF Alphabet, ReqUnion, ReqSets

THEOREM ReqInAlphabet == \A r : \A i \in DOMAIN ReqSets(r) : ReqSets(r)[i] \subseteq Alphabet(r)
  BY DEF Alphabet, ReqUnion

THEOREM AlphabetIsAllowedOrRequired ==
  \A r : Alphabet(r) \subseteq (AllowedRaw(r) \cup UNION {ReqSets(r)[i] : i \in DOMAIN ReqSets(r)}) \ Excluded(r)
  BY ExclusionWinsAll DEF Alphabet, ReqUnion

THEOREM ValidInAlphabet == \A r, cand : IsValid(r, cand) => \A p \in DOMAIN cand : cand[p] \notin Excluded(r)
  BY ExclusionWinsAll DEF IsValid

\* a recipe all of whose required sets were emptied by exclusion constrains nothing beyond the alphabet
THEOREM EmptiedSetsDoNotBlock == \A r, cand : LiveReq(r) = {} => Satisfies(r, cand)
  BY DEF Satisfies

\* a valid string meets every live required set inside the alphabet
THEOREM ValidMeetsRequired ==
  \A r, cand : IsValid(r, cand) => \A i \in LiveReq(r) : \E p \in DOMAIN cand : cand[p] \in ReqSets(r)[i] \cap Alphabet(r)
  BY DEF IsValid, Satisfies
=============================================================================
