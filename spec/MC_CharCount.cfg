CONSTANTS
  MaxLen = 3
SPECIFICATION Spec
INVARIANT CountIsCardinality
CHECK_DEADLOCK FALSE
