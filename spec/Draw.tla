-------------------------------- MODULE Draw --------------------------------
(***************************************************************************)
(* The bounded draw of spg (util.go: randomUint32 / randomUint32n).        *)
(*                                                                         *)
(* A raw word is a W-bit integer read big-endian from the random source    *)
(* in one 4-byte request (short successful reads are retried by            *)
(* io.ReadFull until the word is complete; an error aborts).  A draw with  *)
(* bound n masks when n is a power of two and otherwise rejects words      *)
(* >= Threshold(n) and redraws, returning word % n.                        *)
(*                                                                         *)
(* W is a constant so that TLC can enumerate every bound and every word    *)
(* for small widths; the arithmetic core is proved for W = 32 by Apalache  *)
(* (DrawLemma.tla) and checked on the real code at W = 32 (DrawTrace.tla). *)
(***************************************************************************)
EXTENDS Integers, FiniteSets

CONSTANTS W,          \* word width in bits
          MaxRejects  \* model bound on consecutive rejections explored

RECURSIVE TwoTo(_)
TwoTo(k) == IF k = 0 THEN 1 ELSE 2 * TwoTo(k-1)
M == TwoTo(W)

IsPow2(n) == \E k \in 0..W : n = TwoTo(k)

\* first rejected raw word (util.go: discard), M when nothing is rejected
Threshold(n) == IF IsPow2(n) THEN M ELSE (M-1) - ((M-1) % n)
\* the unbounded theorems about this threshold (any modulus, any bound) are proved in DrawProofs.tla
DP == INSTANCE DrawProofs
ThresholdIsTheProvedOne(n) == ~IsPow2(n) => Threshold(n) = DP!T(M, n)
Accepts(v, n) == v < Threshold(n)
Result(v, n)  == v % n            \* for a power of two: v & (n-1) = v % n

\* ---- the meaning: what "exactly uniform" is, as counting statements ----
Fibre(n, r) == {v \in 0..(M-1) : Accepts(v, n) /\ Result(v, n) = r}
\* computed per residue by stepping through q*n+r: O(M) per bound instead of O(n*M)
FibreSize(n, r) == Cardinality({q \in 0..((M-1) \div n) : q*n + r < M /\ Accepts(q*n + r, n)})
Uniform(n) == /\ FibreSize(n, 0) > 0
              /\ \A r \in 0..(n-1) : FibreSize(n, r) = FibreSize(n, 0)
MoreThanHalf(n) == 2 * Threshold(n) > M     \* accepted words are exactly 0..Threshold-1
FibreSizeIsFibre(n) == \A r \in 0..(n-1) : FibreSize(n, r) = Cardinality(Fibre(n, r))

\* ---- the machine ----
VARIABLES st,      \* "idle" | "drawing" | "done" | "panic"
          dn,      \* bound of the draw in progress (0 when idle)
          got,     \* bytes of the current word delivered so far (0..3)
          rejects, \* words rejected so far in this draw
          words,   \* complete words consumed by this draw
          res      \* result, -1 = none
vars == <<st, dn, got, rejects, words, res>>

TypeOK == /\ st \in {"idle", "drawing", "done", "panic"}
          /\ dn \in 0..(M-1)
          /\ got \in 0..3
          /\ rejects \in 0..(MaxRejects+1)
          /\ words \in 0..(MaxRejects+2)
          /\ res \in -1..(M-1)

Init == st = "idle" /\ dn = 0 /\ got = 0 /\ rejects = 0 /\ words = 0 /\ res = -1

\* randomUint32n(0) panics before touching the source
BeginDrawZero == st = "idle" /\ st' = "panic" /\ UNCHANGED <<dn, got, rejects, words, res>>

BeginDraw(n) == /\ st = "idle" /\ n \in 1..(M-1)
                /\ st' = "drawing" /\ dn' = n
                /\ UNCHANGED <<got, rejects, words, res>>

\* the source delivers k < 4-got bytes without error: io.ReadFull asks again
ReadShort(k) == /\ st = "drawing" /\ k \in 1..3 /\ got + k < 4
                /\ got' = got + k
                /\ UNCHANGED <<st, dn, rejects, words, res>>

\* the word is complete with value v
Accept(v) == /\ st = "drawing" /\ Accepts(v, dn)
             /\ st' = "done" /\ res' = Result(v, dn) /\ got' = 0 /\ words' = words + 1
             /\ UNCHANGED <<dn, rejects>>
Reject(v) == /\ st = "drawing" /\ ~Accepts(v, dn) /\ rejects <= MaxRejects
             /\ rejects' = rejects + 1 /\ got' = 0 /\ words' = words + 1
             /\ UNCHANGED <<st, dn, res>>
ReadWord(v) == Accept(v) \/ Reject(v)

\* the source returns an error (after any number of bytes): panic, no result
ReadFail == /\ st = "drawing"
            /\ st' = "panic"
            /\ UNCHANGED <<dn, got, rejects, words, res>>

Next == \/ BeginDrawZero
        \/ \E n \in 1..(M-1) : BeginDraw(n)
        \/ \E k \in 1..3 : ReadShort(k)
        \/ \E v \in 0..(M-1) : ReadWord(v)
        \/ ReadFail

Spec == Init /\ [][Next]_vars

\* ---- properties ----
ResultInRange == st = "done" => res \in 0..(dn-1)
NoResultUnlessDone == st # "done" => res = -1
\* the counting statements, evaluated for the bound of every reachable draw (all of 1..M-1)
UniformAtEveryBound == st = "drawing" /\ rejects = 0 /\ got = 0 => Uniform(dn) /\ MoreThanHalf(dn)
FibreFormulaSound == st = "drawing" /\ rejects = 0 /\ got = 0 /\ dn <= 40 => FibreSizeIsFibre(dn)
\* above half the range every alternative has exactly one raw value (any unbiased sampler: c*n <= M forces c = 1) - DrawTrace's pair rule
AboveHalfOnePreimage == st = "drawing" /\ rejects = 0 /\ got = 0 /\ 2 * dn > M => \A r \in 0..(dn-1) : FibreSize(dn, r) = 1
BoundToProofs == st = "drawing" => ThresholdIsTheProvedOne(dn)
PowerOfTwoNeverRejects == rejects > 0 => ~IsPow2(dn)
\* a rejected word leaves a fresh draw state: same bound, nothing of the word kept
RejectIsFresh == [][\A v \in 0..(M-1) : Reject(v) => dn' = dn /\ got' = 0 /\ res' = -1 /\ st' = "drawing"]_vars
\* short reads never change the outcome set: they only move got
ShortReadIsStutterOnOutcome == [][\A k \in 1..3 : ReadShort(k) => UNCHANGED <<st, dn, rejects, words, res>>]_vars
StateBound == rejects <= MaxRejects + 1
=============================================================================
