------------------------------- MODULE BigNat -------------------------------
(***************************************************************************)
(* Arbitrary-precision naturals for TLC, whose integers are 32-bit.  A     *)
(* number is a little-endian sequence of limbs in 0..B-1 without a         *)
(* trailing zero limb; zero is <<>>.  B*B + 2*B must fit in 31 bits        *)
(* (B = 2^15 in production; MC_BigNat checks every operator against native *)
(* arithmetic with B = 8, so that multi-limb paths are exercised).         *)
(***************************************************************************)
EXTENDS Integers, Sequences

CONSTANT B

IsBig(a) == /\ a \in Seq(0..(B-1))
            /\ (a # <<>> => a[Len(a)] # 0)

RECURSIVE Norm(_)
Norm(a) == IF a = <<>> THEN <<>>
           ELSE IF a[Len(a)] = 0 THEN Norm(SubSeq(a, 1, Len(a)-1)) ELSE a

RECURSIVE FromInt(_)
FromInt(x) == IF x = 0 THEN <<>> ELSE <<x % B>> \o FromInt(x \div B)

\* only meaningful when the value fits a native integer
RECURSIVE ToInt(_)
ToInt(a) == IF a = <<>> THEN 0 ELSE Head(a) + B * ToInt(Tail(a))

Limb(a, i) == IF i <= Len(a) THEN a[i] ELSE 0
Max2(x, y) == IF x >= y THEN x ELSE y

RECURSIVE AddFrom(_,_,_,_)
AddFrom(a, b, i, c) ==
  IF i > Max2(Len(a), Len(b)) THEN (IF c = 0 THEN <<>> ELSE <<c>>)
  ELSE LET x == Limb(a, i) + Limb(b, i) + c
       IN  <<x % B>> \o AddFrom(a, b, i+1, x \div B)
Add(a, b) == AddFrom(a, b, 1, 0)

\* -1, 0, 1
RECURSIVE CmpFrom(_,_,_)
CmpFrom(a, b, i) == IF i = 0 THEN 0
                    ELSE IF a[i] < b[i] THEN -1
                    ELSE IF a[i] > b[i] THEN 1
                    ELSE CmpFrom(a, b, i-1)
Cmp(a, b) == IF Len(a) < Len(b) THEN -1
             ELSE IF Len(a) > Len(b) THEN 1
             ELSE CmpFrom(a, b, Len(a))
Lt(a, b) == Cmp(a, b) = -1
Le(a, b) == Cmp(a, b) <= 0
Eq(a, b) == a = b

\* a - b for a >= b
RECURSIVE SubFrom(_,_,_,_)
SubFrom(a, b, i, br) ==
  IF i > Len(a) THEN <<>>
  ELSE LET x == a[i] - Limb(b, i) - br
       IN  IF x < 0 THEN <<x + B>> \o SubFrom(a, b, i+1, 1)
                    ELSE <<x>> \o SubFrom(a, b, i+1, 0)
Sub(a, b) == Norm(SubFrom(a, b, 1, 0))

\* a * k for 0 <= k < B
RECURSIVE MulSmallFrom(_,_,_,_)
MulSmallFrom(a, k, i, c) ==
  IF i > Len(a) THEN (IF c = 0 THEN <<>> ELSE <<c>>)
  ELSE LET x == a[i] * k + c
       IN  <<x % B>> \o MulSmallFrom(a, k, i+1, x \div B)
MulSmall(a, k) == IF k = 0 \/ a = <<>> THEN <<>> ELSE MulSmallFrom(a, k, 1, 0)

ShiftLimbs(a, n) == IF a = <<>> THEN <<>> ELSE [i \in 1..n |-> 0] \o a

RECURSIVE MulFrom(_,_,_)
MulFrom(a, b, j) == IF j > Len(b) THEN <<>>
                    ELSE Add(ShiftLimbs(MulSmall(a, b[j]), j-1), MulFrom(a, b, j+1))
Mul(a, b) == IF a = <<>> \/ b = <<>> THEN <<>> ELSE MulFrom(a, b, 1)

One == <<1>>
Zero == <<>>

\* a^e for native e >= 0 (square and multiply)
RECURSIVE Pow(_,_)
Pow(a, e) == IF e = 0 THEN One
             ELSE LET h == Pow(a, e \div 2)
                      s == Mul(h, h)
                  IN  IF e % 2 = 1 THEN Mul(s, a) ELSE s

\* a mod m and a div m for native 1 <= m < B (Horner from the top limb)
RECURSIVE ModSmallFrom(_,_,_,_)
ModSmallFrom(a, m, i, r) == IF i = 0 THEN r ELSE ModSmallFrom(a, m, i-1, (r * B + a[i]) % m)
ModSmall(a, m) == ModSmallFrom(a, m, Len(a), 0)

\* x^e mod m for native x, e, m with m < B
RECURSIVE PowModInt(_,_,_)
PowModInt(x, e, m) == IF e = 0 THEN 1 % m
                      ELSE LET h == PowModInt(x, e \div 2, m)
                               s == (h * h) % m
                           IN  IF e % 2 = 1 THEN (s * (x % m)) % m ELSE s

\* number of bits of a native integer
RECURSIVE IntBits(_)
IntBits(x) == IF x = 0 THEN 0 ELSE 1 + IntBits(x \div 2)

RECURSIVE Log2B(_)
Log2B(b) == IF b = 1 THEN 0 ELSE 1 + Log2B(b \div 2)
LB == Log2B(B)   \* bits per limb (B is a power of two)

BitLen(a) == IF a = <<>> THEN 0 ELSE (Len(a)-1) * LB + IntBits(a[Len(a)])

RECURSIVE Pow2Int(_)
Pow2Int(k) == IF k = 0 THEN 1 ELSE 2 * Pow2Int(k-1)

\* a * 2^s
Shl(a, s) == IF a = <<>> THEN <<>>
             ELSE ShiftLimbs(MulSmall(a, Pow2Int(s % LB)), s \div LB)

\* floor(a / 2^s)
RECURSIVE ShrBitsFrom(_,_,_)
ShrBitsFrom(a, k, i) ==   \* k in 1..LB-1: shift right by k bits, limb i upward
  IF i > Len(a) THEN <<>>
  ELSE <<(a[i] \div Pow2Int(k)) + (Limb(a, i+1) % Pow2Int(k)) * Pow2Int(LB - k)>> \o ShrBitsFrom(a, k, i+1)
Shr(a, s) ==
  LET d == s \div LB
      k == s % LB
      t == IF d >= Len(a) THEN <<>> ELSE SubSeq(a, d+1, Len(a))
  IN  IF k = 0 THEN t ELSE Norm(ShrBitsFrom(t, k, 1))

\* are any of the low s bits of a set?
LowBitsNonZero(a, s) ==
  LET d == s \div LB
      k == s % LB
  IN  \/ \E i \in 1..(IF d < Len(a) THEN d ELSE Len(a)) : a[i] # 0
      \/ (k > 0 /\ d < Len(a) /\ a[d+1] % Pow2Int(k) # 0)

IsPow2Int(x) == x > 0 /\ \E k \in 0..30 : x = Pow2Int(k)
IsPow2(a) == /\ a # <<>>
             /\ IsPow2Int(a[Len(a)])
             /\ \A i \in 1..(Len(a)-1) : a[i] = 0
=============================================================================
