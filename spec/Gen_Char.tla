------------------------------ MODULE Gen_Char ------------------------------
(***************************************************************************)
(* spec -> code: TLC writes the complete universe of small character       *)
(* recipes (abstract characters 1..NU; the runner maps them to concrete    *)
(* ASCII / multi-byte characters) as replay scenarios for the Go harness.  *)
(* Every overlap pattern of up to two required sets with the allowed and   *)
(* excluded characters occurs, including equal, nested, crossing and       *)
(* emptied required sets and duplicated custom characters.                 *)
(***************************************************************************)
EXTENDS CharSets, TLC, Json, IOUtils, SequencesExt
CONSTANTS NU, MaxLen
U == 1..NU
NonEmpty == (SUBSET U) \ {{}}
\* a custom string listing S, with its smallest character repeated when dup
Str(S, dup) == IF dup /\ S # {} THEN SortedSeq(S) \o <<CHOOSE x \in S : \A y \in S : x <= y>> ELSE SortedSeq(S)
ReqChoices == {<<>>} \cup {<<Str(s, FALSE)>> : s \in NonEmpty}
                     \cup {<<Str(s, FALSE), Str(t, d)>> : s \in NonEmpty, t \in NonEmpty, d \in {FALSE}}
Recipes == { [len |-> L, allow |-> 0, require |-> 0, exclude |-> 0,
              allowChars |-> Str(a, d), excludeChars |-> Str(x, FALSE), requireSets |-> rs]
             : L \in 1..MaxLen, a \in SUBSET U, d \in BOOLEAN, x \in {{}} \cup {{k} : k \in U}, rs \in ReqChoices }
Scenario(r, mt) == [kind |-> "char", char |-> r, maxTrials |-> mt, failRateOne |-> 1, mode |-> "tree",
                    paths |-> 0, maxLeaves |-> 0, tag |-> "tlc-universe"]
Scenarios == { Scenario(r, mt) : r \in {q \in Recipes : Alphabet(q) # {}}, mt \in {1, 2} }
ASSUME PrintT(<<"scenarios", Cardinality(Scenarios)>>)
ASSUME ndJsonSerialize(IOEnv.VERIF_GEN_OUT, SetToSeq(Scenarios))
VARIABLE x
Init == x = 0
Next == UNCHANGED x
Spec == Init /\ [][Next]_x
=============================================================================
