------------------------------ MODULE CharSets ------------------------------
(***************************************************************************)
(* CharSetsCore (the meaning of a recipe) plus the recursive helpers TLC    *)
(* uses: the sorted listing and exact counting with native integers.       *)
(***************************************************************************)
EXTENDS CharSetsCore, FiniteSetsExt

\* sorted, duplicate-free listing (what Alphabet() must return; also the draw order under the verif hook)
RECURSIVE SortedSeq(_)
SortedSeq(S) == IF S = {} THEN <<>>
                ELSE LET m == CHOOSE x \in S : \A y \in S : x <= y IN <<m>> \o SortedSeq(S \ {m})

\* ---- exact counting with native integers (small cells) ----
RECURSIVE IPow(_,_)
IPow(a, e) == IF e = 0 THEN 1 ELSE a * IPow(a, e-1)
AvoidSize(r, S) == Cardinality(Alphabet(r) \ UNION {ReqSets(r)[i] : i \in S})
\* inclusion-exclusion over the live required sets
CountValidInt(r) ==
  LET subs == SUBSET LiveReq(r)
      term(S) == IPow(AvoidSize(r, S), r.len)
      pos == MapThenSumSet(term, {T \in subs : Cardinality(T) % 2 = 0})
      neg == MapThenSumSet(term, {T \in subs : Cardinality(T) % 2 = 1})
  IN  pos - neg
=============================================================================
