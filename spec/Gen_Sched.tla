------------------------------- MODULE Gen_Sched -------------------------------
(***************************************************************************)
(* spec -> code for C14: every interleaving of W concurrent calls of D     *)
(* steps each (a step = the segment of a call from one bounded draw to the *)
(* next - the granularity at which Api.tla's calls can interfere through   *)
(* shared state), for every assignment of the calls to shared objects and  *)
(* every object setup, written as schedules for the gate-driven replay     *)
(* driver.  These are exactly the behaviours of Api!Next restricted to W   *)
(* goroutines, projected on "which goroutine moves".                       *)
(***************************************************************************)
EXTENDS Integers, Sequences, FiniteSets, TLC, Json, IOUtils, SequencesExt
CONSTANTS W, D
Workers == 0..(W-1)
Count(s, w) == Cardinality({i \in DOMAIN s : s[i] = w})
RECURSIVE Inter(_)
\* all sequences over Workers in which every worker moves exactly D times
Inter(n) == IF n = 0 THEN {<<>>}
            ELSE {Append(s, w) : s \in Inter(n-1), w \in Workers} 
Schedules == {s \in Inter(W * D) : \A w \in Workers : Count(s, w) = D}
Scenarios == {[schedule |-> s, workers |-> a, setup |-> k] : s \in Schedules, a \in [1..W -> 0..2], k \in 0..2}
ASSUME PrintT(<<"schedules", Cardinality(Schedules), "scenarios", Cardinality(Scenarios)>>)
ASSUME ndJsonSerialize(IOEnv.VERIF_GEN_OUT, SetToSeq(Scenarios))
VARIABLE x
Init == x = 0
Next == UNCHANGED x
Spec == Init /\ [][Next]_x
=============================================================================
