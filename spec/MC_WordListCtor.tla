--------------------------- MODULE MC_WordListCtor ---------------------------
EXTENDS WordListCtor
\* 1 polish -> 2 Polish (fixed point); 3 one -> 4 One; 5 "4x" uncapitalisable; 6 ab-cd -> 7 Ab-Cd
MCWords == 1..7
MCTitle == [w \in 1..7 |-> CASE w = 1 -> 2 [] w = 2 -> 2 [] w = 3 -> 4 [] w = 4 -> 4 [] w = 5 -> 5 [] w = 6 -> 7 [] w = 7 -> 7]
=============================================================================
