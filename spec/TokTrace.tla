------------------------------- MODULE TokTrace -------------------------------
(***************************************************************************)
(* Validates recorded MakeIndices / Tokenize calls of the REAL library     *)
(* against Tokens.tla at the real limit (255 characters per token).        *)
(*   rt   tokens (built through the public API or generated), the index    *)
(*        MakeIndices returned, what Tokenize(String(), index) returned    *)
(*   dec  Tokenize on an arbitrary (string, index bytes) pair              *)
(***************************************************************************)
EXTENDS TraceIO
Limit == 255
INSTANCE Tokens

VARIABLES l, bad, done, stats
vars == <<l, bad, done, stats>>

Norm(ts) == [i \in DOMAIN ts |-> [v |-> ts[i].v, t |-> ts[i].t]]

RtWhys(e) ==
  LET ts == Norm(e.toks)
      spec == MakeIdx(ts)
      enc == e.enc
      dec == e.dec
      long == \E i \in DOMAIN ts : Len(ts[i].v) > Limit
  IN
  <<IF enc.kind = "panic" THEN "P:C11:MakeIndices-panicked" ELSE "ok",
    \* the tokens were built through Tokenize with a full index (one length and type per token): they must be what was asked for
    IF Norm(e.want) # ts THEN "P:C11:tokens-built-from-a-full-index-are-not-the-tokens-the-index-describes" ELSE "ok",
    IF Encodable(ts) /\ enc.kind # "ok" THEN "P:C11:no-index-for-tokens-of-1-to-255-characters" ELSE "ok",
    IF Encodable(ts) /\ enc.kind = "ok" /\ ~(dec.kind = "ok" /\ Norm(dec.toks) = ts)
      THEN "P:C11:Tokenize(String(),MakeIndices())-does-not-reconstruct-the-tokens" ELSE "ok",
    IF Encodable(ts) /\ enc.kind = "ok" /\ dec.kind = "ok" /\ dec.entSame # 1 THEN "P:C11:entropy-not-carried-through" ELSE "ok",
    \* decoded again at once with another entropy: same tokens, THAT entropy
    IF Encodable(ts) /\ enc.kind = "ok" /\ dec.kind = "ok" /\ ~(e.dec2.kind = "ok" /\ Norm(e.dec2.toks) = Norm(dec.toks) /\ e.dec2.entSame = 1)
      THEN "P:C11:decoding-the-same-string-and-index-again-with-another-entropy-differs" ELSE "ok",
    IF Encodable(ts) /\ enc.kind = "ok" /\
       ~(LET n == Len(ts) IN
           IF AllAtoms(ts) /\ \A i \in DOMAIN ts : Len(ts[i].v) = 1 THEN Len(enc.idx) = 1
           ELSE IF AllAtoms(ts) \/ Alternating(ts) THEN Len(enc.idx) = n + 1
           ELSE Len(enc.idx) = 2*n + 1)
      THEN "P:C11:index-is-not-of-the-documented-size" ELSE "ok",
    \* a token that cannot be encoded must give an error, never an index that decodes to something else
    IF ts # <<>> /\ long /\ enc.kind = "ok" /\ ~(dec.kind = "ok" /\ Norm(dec.toks) = ts)
      THEN "P:C11:lossy-index-instead-of-an-error" ELSE "ok",
    IF e.str # StringOf(ts) THEN "P:C05:String()-is-not-the-concatenation-of-token-values" ELSE "ok",
    IF e.atoms # AtomsOf(ts) \/ e.seps # SepsOf(ts) THEN "P:C05:Atoms()-or-Separators()-are-not-the-values-of-that-type-in-order" ELSE "ok",
    IF e.kindGo # Kind(ts) /\ Encodable(ts) THEN "S:Kind()-differs-from-the-specified-decision-table" ELSE "ok",
    IF enc.kind \in {"ok", "err", "nil"} /\ ~(enc.kind = spec.kind /\ (enc.kind = "ok" => enc.idx = spec.idx))
      THEN "S:MakeIndices-differs-from-the-specified-encoding" ELSE "ok"
  >>

DecWhys(e) ==
  LET chars == e.str
      idx == e.idx
      res == e.res
      toks == Norm(res.toks)
      spec == Tok(chars, idx)
  IN
  <<IF res.kind = "panic" THEN "P:C12:Tokenize-panicked" ELSE "ok",
    IF res.kind = "ok" /\ ~ConsecutiveSlices(chars, toks) THEN "P:C12:tokens-are-not-consecutive-slices-of-the-string" ELSE "ok",
    IF res.kind = "ok" /\ res.entSame # 1 THEN "P:C12:entropy-passed-in-not-returned" ELSE "ok",
    IF res.kind = "ok" /\ idx = <<>> THEN "P:C12:empty-index-accepted" ELSE "ok",
    IF res.kind = "ok" /\ idx # <<>> /\ idx[1] \notin 0..3 THEN "P:C12:unknown-kind-byte-accepted" ELSE "ok",
    IF res.kind = "ok" /\ idx # <<>> /\ idx[1] = FullKind /\ Len(idx) % 2 = 0 THEN "P:C12:truncated-index-accepted" ELSE "ok",
    IF res.kind = "ok" /\ idx # <<>> /\ idx[1] \in {VarAtomsKind, AlternatingKind}
       /\ ~(Len(toks) = Len(idx) - 1 /\ \A i \in DOMAIN toks : Len(toks[i].v) = idx[i+1])
      THEN "P:C12:character-counts-differ-from-the-index" ELSE "ok",
    IF res.kind = "ok" /\ idx # <<>> /\ idx[1] = FullKind /\ Len(idx) % 2 = 1
       /\ ~(Len(toks) = (Len(idx) - 1) \div 2 /\ \A i \in DOMAIN toks : Len(toks[i].v) = idx[2*i] /\ toks[i].t = idx[2*i+1])
      THEN "P:C12:character-counts-or-types-differ-from-the-index" ELSE "ok",
    IF res.kind = "ok" /\ idx # <<>> /\ idx[1] = CharacterKind /\ ~(Len(toks) = Len(chars) /\ \A i \in DOMAIN toks : Len(toks[i].v) = 1 /\ toks[i].t = AtomT)
      THEN "P:C12:character-index-not-one-atom-per-character" ELSE "ok",
    \* lengths exceeding the string are errors
    IF res.kind = "ok" /\ spec.kind = "err" THEN "P:C12:malformed-index-accepted" ELSE "ok",
    IF res.kind = "err" /\ spec.kind = "ok" THEN "S:Tokenize-rejects-an-index-the-specification-accepts" ELSE "ok",
    IF res.kind = "ok" /\ spec.kind = "ok" /\ toks # spec.toks THEN "S:Tokenize-differs-from-the-specified-decoding" ELSE "ok"
  >>

Whys(e) == IF e.op = "rt" THEN RtWhys(e) ELSE IF e.op = "dec" THEN DecWhys(e) ELSE IF e.op = "skip" THEN <<"ok">> ELSE <<"H:unknown-op">>

RECURSIVE BadOf(_,_,_)
BadOf(line, ws, i) == IF i > Len(ws) THEN <<>>
                      ELSE (IF ws[i] = "ok" THEN <<>> ELSE <<Bad(line, ws[i])>>) \o BadOf(line, ws, i+1)

Init == l = 1 /\ bad = <<>> /\ done = FALSE /\ stats = [rt |-> 0, dec |-> 0]
Step == /\ l <= NLines
        /\ LET e == Trace[l] IN
             /\ bad' = bad \o BadOf(l, Whys(e), 1)
             /\ stats' = [rt |-> stats.rt + (IF e.op = "rt" THEN 1 ELSE 0), dec |-> stats.dec + (IF e.op = "dec" THEN 1 ELSE 0)]
        /\ l' = l + 1 /\ UNCHANGED done
Finish == /\ l = NLines + 1 /\ ~done /\ WriteResult(bad, stats) /\ done' = TRUE /\ UNCHANGED <<l, bad, stats>>
Next == Step \/ Finish
Spec == Init /\ [][Next]_vars
=============================================================================
