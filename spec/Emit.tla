--------------------------------- MODULE Emit ---------------------------------
(***************************************************************************)
(* What the library may write outside the returned Password (C18).  The    *)
(* only emitting actions are three diagnostics whose payload is numbers:   *)
(*   DupNotice(k)                NewWordList: "k duplicate words found"    *)
(*   ImpossibleAlphabetNotice(k) entropySimple: "positive number ... Not k" *)
(*   RoundingWarning             SuccessProbability: rounding went astray  *)
(* Secrets (characters drawn, candidates incl. rejected ones, words,       *)
(* separators) flow only into the returned value.  The machine interleaves *)
(* arbitrary secret-producing draws with the diagnostics; the invariant    *)
(* says no emitted record ever carries a secret character.                 *)
(***************************************************************************)
EXTENDS Integers, Sequences, FiniteSets
CONSTANTS SecretChars,  \* characters the generators may draw
          MaxEvents
VARIABLES drawn,    \* secret material produced so far (candidates, rejected ones included)
          returned, \* what has been handed to the caller
          emitted   \* sequence of diagnostics: [stream, kind, payload]
vars == <<drawn, returned, emitted>>
Streams == {"stdout", "stderr", "log"}
Init == drawn = <<>> /\ returned = <<>> /\ emitted = <<>>
DrawSecret(c) == /\ Len(drawn) < MaxEvents /\ drawn' = Append(drawn, c) /\ UNCHANGED <<returned, emitted>>
RejectCandidate == /\ drawn # <<>> /\ drawn' = <<>> /\ UNCHANGED <<returned, emitted>>          \* discarded, never emitted
ReturnPassword == /\ drawn # <<>> /\ returned' = drawn /\ drawn' = <<>> /\ UNCHANGED emitted
DupNotice(k) == /\ Len(emitted) < MaxEvents /\ emitted' = Append(emitted, [stream |-> "stderr", kind |-> "dup", payload |-> k]) /\ UNCHANGED <<drawn, returned>>
ImpossibleAlphabetNotice(k) == /\ Len(emitted) < MaxEvents
                               /\ emitted' = Append(emitted, [stream |-> "stdout", kind |-> "nelem", payload |-> k]) /\ UNCHANGED <<drawn, returned>>
RoundingWarning == /\ Len(emitted) < MaxEvents
                   /\ emitted' = Append(emitted, [stream |-> "log", kind |-> "rounding", payload |-> 0]) /\ UNCHANGED <<drawn, returned>>
Next == \/ \E c \in SecretChars : DrawSecret(c)
        \/ RejectCandidate \/ ReturnPassword \/ RoundingWarning
        \/ \E k \in 0..3 : DupNotice(k) \/ ImpossibleAlphabetNotice(-k)
Spec == Init /\ [][Next]_vars
\* diagnostics carry counts only; secret characters are not integers in the payload range
NoSecretEmitted == \A i \in DOMAIN emitted : emitted[i].payload \in Int /\ emitted[i].payload \notin SecretChars
OnlyKnownDiagnostics == \A i \in DOMAIN emitted : emitted[i].kind \in {"dup", "nelem", "rounding"} /\ emitted[i].stream \in Streams
SecretsLeaveOnlyByReturn == [][emitted' # emitted => drawn' = drawn /\ returned' = returned]_vars
=============================================================================
