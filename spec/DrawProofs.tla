----------------------------- MODULE DrawProofs -----------------------------
(***************************************************************************)
(* The arithmetic of the rejection threshold (util.go: discard) for EVERY  *)
(* modulus M > 1 and EVERY bound 1 <= n < M, proved by tlapm - no bound on  *)
(* the width.  Draw.tla uses it with M = 2^W (TLC enumerates W <= 8),      *)
(* DrawLemma.tla re-checks it at M = 2^32 with Apalache.                   *)
(*   tlapm DrawProofs.tla                                                  *)
(***************************************************************************)
EXTENDS Integers

\* Draw!Threshold for a bound that is not a power of two
T(M, n) == (M-1) - ((M-1) % n)

LEMMA MulMono == ASSUME NEW n \in Nat, NEW d \in Nat, d >= 1 PROVE n * d >= n
  OBVIOUS
LEMMA DivMod == ASSUME NEW a \in Nat, NEW n \in Nat, n > 0
                PROVE  /\ a = n * (a \div n) + (a % n)
                       /\ a % n \in 0..(n-1)
                       /\ a \div n \in Nat
  OBVIOUS
LEMMA DivModUnique == ASSUME NEW n \in Nat, n > 0, NEW q \in Nat, NEW r \in 0..(n-1)
                      PROVE  (n * q + r) % n = r /\ (n * q + r) \div n = q
  <1> DEFINE x == n * q + r  q2 == x \div n  r2 == x % n
  <1>0. x \in Nat OBVIOUS
  <1>1. x = n * q2 + r2 /\ r2 \in 0..(n-1) /\ q2 \in Nat BY <1>0, DivMod
  <1>2. q2 = q
    <2>1. CASE q2 < q
      <3> DEFINE d == q - q2
      <3>1. d \in Nat /\ d >= 1 BY <2>1, <1>1
      <3>2. n * d >= n BY <3>1, MulMono
      <3>3. n * q = n * q2 + n * d BY <1>1
      <3> QED BY <3>2, <3>3, <1>1
    <2>2. CASE q < q2
      <3> DEFINE d == q2 - q
      <3>1. d \in Nat /\ d >= 1 BY <2>2, <1>1
      <3>2. n * d >= n BY <3>1, MulMono
      <3>3. n * q2 = n * q + n * d BY <1>1
      <3> QED BY <3>2, <3>3, <1>1
    <2> QED BY <2>1, <2>2, <1>1
  <1>2b. n * q2 = n * q BY <1>2
  <1>2c. n * q2 + r2 = n * q + r BY <1>1
  <1>2d. r2 \in Int /\ r \in Int /\ n * q2 \in Int /\ n * q \in Int BY <1>1
  <1>3. r2 = r
    <2> HIDE DEF x, q2, r2
    <2> QED BY <1>2b, <1>2c, <1>2d
  <1> QED BY <1>2, <1>3

\* the threshold is the largest multiple of n below M; at most n words are rejected
THEOREM ThresholdIsMultiple ==
  ASSUME NEW M \in Nat, M > 1, NEW n \in 1..(M-1)
  PROVE  /\ T(M, n) = n * ((M-1) \div n)
         /\ T(M, n) % n = 0
         /\ T(M, n) \div n = (M-1) \div n
         /\ T(M, n) <= M - 1
         /\ M - T(M, n) <= n
         /\ (M-1) \div n \in Nat /\ (M-1) \div n >= 1
  <1> DEFINE a == M - 1  k == a \div n  m == a % n
  <1>1. a \in Nat /\ n \in Nat /\ n > 0 /\ a >= n OBVIOUS
  <1>2. a = n * k + m /\ m \in 0..(n-1) /\ k \in Nat BY <1>1, DivMod
  <1>3. T(M, n) = n * k BY <1>2 DEF T
  <1>4. (n * k + 0) % n = 0 /\ (n * k + 0) \div n = k
    <2>1. k \in Nat /\ n \in Nat /\ n > 0 /\ 0 \in 0..(n-1) BY <1>1, <1>2
    <2> HIDE DEF a, k, m
    <2> QED BY <2>1, DivModUnique
  <1>5. k >= 1
    <2>1. CASE k = 0 BY <2>1, <1>1, <1>2
    <2> QED BY <2>1, <1>2
  <1>6. n * k \in Nat /\ n * k + 0 = n * k BY <1>1, <1>2
  <1> HIDE DEF k, m
  <1>7. T(M, n) % n = 0 /\ T(M, n) \div n = k BY <1>3, <1>4, <1>6
  <1>8. T(M, n) <= M - 1 /\ M - T(M, n) <= n BY <1>2, <1>3, <1>6
  <1> QED BY <1>2, <1>3, <1>5, <1>7, <1>8 DEF k

\* accepted words [0,T) split into (quotient, result) ...
THEOREM AcceptedSplit ==
  ASSUME NEW M \in Nat, M > 1, NEW n \in 1..(M-1), NEW v \in Nat, v < T(M, n)
  PROVE  /\ v \div n \in 0..((T(M, n) \div n) - 1)
         /\ v % n \in 0..(n-1)
         /\ n * (v \div n) + (v % n) = v
  <1> DEFINE k == (M-1) \div n  q == v \div n  r == v % n
  <1>1. n \in Nat /\ n > 0 OBVIOUS
  <1>2. v = n * q + r /\ r \in 0..(n-1) /\ q \in Nat BY <1>1, DivMod
  <1>3. T(M, n) = n * k /\ T(M, n) \div n = k /\ k \in Nat BY ThresholdIsMultiple
  <1>4. q < k
    <2>1. CASE q >= k
      <3> DEFINE d == q - k
      <3>1. d \in Nat BY <2>1, <1>2, <1>3
      <3>2. n * q = n * k + n * d BY <1>2, <1>3
      <3>3. n * d \in Nat BY <3>1, <1>1
      <3> HIDE DEF k, q, r, d
      <3> QED BY <3>2, <3>3, <1>2, <1>3
    <2> QED BY <2>1, <1>2, <1>3
  <1> QED BY <1>2, <1>3, <1>4

\* ... and every (quotient, result) pair comes from exactly one accepted word:
\* each result r has exactly T/n accepted raw preimages, whatever r is
THEOREM AcceptedJoin ==
  ASSUME NEW M \in Nat, M > 1, NEW n \in 1..(M-1),
         NEW q \in Nat, q < T(M, n) \div n, NEW r \in 0..(n-1)
  PROVE  /\ n * q + r < T(M, n)
         /\ (n * q + r) % n = r
         /\ (n * q + r) \div n = q
  <1> DEFINE k == (M-1) \div n
  <1>1. n \in Nat /\ n > 0 OBVIOUS
  <1>3. T(M, n) = n * k /\ T(M, n) \div n = k /\ k \in Nat BY ThresholdIsMultiple
  <1>4. n * q + r < n * k
    <2> DEFINE d == k - q
    <2>1. d \in Nat /\ d >= 1 BY <1>3
    <2>2. n * d >= n BY <2>1, <1>1, MulMono
    <2>3. n * k = n * q + n * d BY <1>3
    <2>4. n * q \in Nat /\ n * d \in Nat BY <1>1, <2>1
    <2> HIDE DEF k, d
    <2> QED BY <2>2, <2>3, <2>4
  <1> QED BY <1>1, <1>3, <1>4, DivModUnique
========================================================================

\* the masking branch (n divides M, e.g. a power of two when M = 2^W): nothing is rejected and
\* every result has exactly M/n raw preimages
THEOREM MaskUniform ==
  ASSUME NEW n \in Nat, n > 0, NEW c \in Nat, NEW q \in Nat, q < c, NEW r \in 0..(n-1)
  PROVE  /\ n * q + r < n * c
         /\ (n * q + r) % n = r
         /\ (n * q + r) \div n = q
  <1>4. n * q + r < n * c
    <2> DEFINE d == c - q
    <2>1. d \in Nat /\ d >= 1 OBVIOUS
    <2>2. n * d >= n BY <2>1, MulMono
    <2>3. n * c = n * q + n * d OBVIOUS
    <2>4. n * q \in Nat /\ n * d \in Nat BY <2>1
    <2> HIDE DEF d
    <2> QED BY <2>2, <2>3, <2>4
  <1> QED BY <1>4, DivModUnique
=====
