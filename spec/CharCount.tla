------------------------------ MODULE CharCount ------------------------------
(***************************************************************************)
(* Exact counts and entropies of character recipes at full size            *)
(* (char_strength.go), over BigNat, plus the float32 comparisons.          *)
(***************************************************************************)
EXTENDS CharSets, DyadicLog2

ChooseAny(s) == CHOOSE x \in s : TRUE
\* A string meets every live required set iff it meets the MINIMAL distinct ones (hitting A hits every superset of A; equal sets
\* are one constraint), so inclusion-exclusion runs over those: 17 required sets of which 16 are nested cost 4 terms, not 2^17.
\* MC_CharCount checks this count against the per-index formula (CharSets!CountValidInt) and against brute force.
LiveSets(r) == {ReqSets(r)[i] : i \in LiveReq(r)}
MinReq(r) == {s \in LiveSets(r) : ~\E t \in LiveSets(r) : t # s /\ t \subseteq s}
AvoidSizeOf(r, Ss) == Cardinality(Alphabet(r) \ UNION Ss)
TermBig(r, Ss) == Pow(FromInt(AvoidSizeOf(r, Ss)), r.len)
SumTerms(r, Sss) == MapThenFoldSet(Add, <<>>, LAMBDA Ss : TermBig(r, Ss), ChooseAny, Sss)
\* inclusion-exclusion over the minimal live required sets:  count = Pos - Neg  (Pos >= Neg always)
PosSum(r) == SumTerms(r, {T \in SUBSET MinReq(r) : Cardinality(T) % 2 = 0})
NegSum(r) == SumTerms(r, {T \in SUBSET MinReq(r) : Cardinality(T) % 2 = 1})
CountValidBig(r) == Sub(PosSum(r), NegSum(r))
\* what the code's n() computes: an emptied required set is counted as unsatisfiable
CountCodeBig(r) == IF HasEmptiedReq(r) THEN <<>> ELSE CountValidBig(r)

\* modular fingerprint of the count for very long passwords (no big multiplication):
\*   count mod p  =  sum over subsets of (+-) (|avoid| ^ len mod p)
CountModP(r, p) ==
  LET term(Ss) == PowModInt(AvoidSizeOf(r, Ss) % p, r.len, p)
      pos == MapThenSumSet(term, {T \in SUBSET MinReq(r) : Cardinality(T) % 2 = 0})
      neg == MapThenSumSet(term, {T \in SUBSET MinReq(r) : Cardinality(T) % 2 = 1})
  IN  (((pos - neg) % p) + p) % p
FingerprintPrimes == {32749, 32719, 32717, 32713, 32707, 32693, 32687, 32653, 32647, 32633, 32621, 32611}

\* a float32 as logged by the harness: [k, neg, m, e, bits, bit0]
IsFin(f) == f.k = "fin"
SameFloat(f, g) == f.k = g.k /\ f.bits = g.bits /\ f.bit0 = g.bit0

\* E is log2(N) to float32 precision (tol ulps of E), N >= 1 a BigNat
EntropyIsLog2(f, N, tol) ==
  IF N = <<>> THEN f.k = "ninf"
  ELSE IF N = One THEN IsFin(f) /\ f.m = 0
  ELSE /\ IsFin(f) /\ f.neg = 0 /\ f.m > 0 /\ f.e >= -K
       /\ WithinUlps(f.m, f.e, Log2LoX(N), Log2Hi(N), tol)
\* E is log2(N) ROUNDED ONCE to float32: within 0.501 ulp (513/1024) of the bracket of the exact logarithm.  The library computes
\* the value in float64 (error below 1e-8 ulp of the float32 result) and converts once; a value rounded to float32 at an intermediate
\* step and again at the end is up to 1.5 ulp off.
EntropyIsLog2Once(f, N) ==
  IF N = <<>> THEN f.k = "ninf"
  ELSE IF N = One THEN IsFin(f) /\ f.m = 0
  ELSE /\ IsFin(f) /\ f.neg = 0 /\ f.m > 0 /\ f.e >= -K
       /\ WithinUlpsFine(f.m, f.e, Log2LoX(N), Log2Hi(N), 513)
\* both at once (one bracket): 0 = rounded once, 1 = within tol ulps only, 2 = neither
EntropyClass(f, N, tol) ==
  IF N = <<>> THEN (IF f.k = "ninf" THEN 0 ELSE 2)
  ELSE IF N = One THEN (IF IsFin(f) /\ f.m = 0 THEN 0 ELSE 2)
  ELSE IF ~(IsFin(f) /\ f.neg = 0 /\ f.m > 0 /\ f.e >= -K) THEN 2
  ELSE LET lo == Log2LoX(N)
           hi == Log2Hi(N)
       IN IF WithinUlpsFine(f.m, f.e, lo, hi, 513) THEN 0 ELSE IF WithinUlps(f.m, f.e, lo, hi, tol) THEN 1 ELSE 2
\* E <= log2(N) + tol ulps  (E does not overstate the true min-entropy log2 N)
EntropyNotAbove(f, N, tol) ==
  \/ f.k = "ninf"
  \/ IsFin(f) /\ (f.m = 0 \/ f.neg = 1)
  \/ IsFin(f) /\ N # <<>> /\ f.e >= -K /\ NotAbove(f.m, f.e, Log2Hi(N), tol)
=============================================================================
