------------------------------ MODULE WordTrace ------------------------------
(***************************************************************************)
(* Validates executions of the REAL NewWordList / WLRecipe API against     *)
(* WordListCtor (KeptSpec/UncapSpec), WordGen (structure, machine replay,  *)
(* counting) and the entropy formula.  Words and separators are sequences  *)
(* of code points; Title is the environment function logged per word.      *)
(*   wcell    input list + titles, kept read-out, Size, recipe, Entropy x2 *)
(*   wleaf    one real Generate run: [bound, index] of every draw, result  *)
(*   wcellend distribution statements over the complete cell               *)
(***************************************************************************)
EXTENDS TraceIO, CharCount

VARIABLES l, bad, cell, info, acc, failW, cutW, totW, nleaf, done, stats, prevG, lineReal, linePred
vars == <<l, bad, cell, info, acc, failW, cutW, totW, nleaf, done, stats, prevG, lineReal, linePred>>

NoCell == [op |-> "none"]
Tol == 4      \* float32 additions in the formula

\* ---------------- per-cell information ----------------
InputSet(c) == SeqSet(c.wl.words)
HasList(c) == c.wl.nolist = 0

SepInfo(c) ==
  IF c.sepKind = "recipe" THEN
    LET sr == c.sepRecipe
        aset == Alphabet(sr)
        A == Cardinality(aset)
        num == IF sr.len >= 1 /\ A >= 1 THEN CountCodeBig(sr) ELSE <<>>
        den == IF sr.len >= 1 /\ A >= 1 THEN Pow(FromInt(A), sr.len) ELSE <<>>
        refusedSure == sr.len < 1 \/ A = 0 \/ num = <<>>
                       \/ (c.failRateOne = 0 /\ c.maxTrials = 200 /\ Le(MulSmall(num, 1000), MulSmall(den, 85)))
        generatesSure == ~refusedSure /\ (c.failRateOne = 1 \/ (c.maxTrials = 200 /\ ~Lt(MulSmall(num, 1000), MulSmall(den, 110))))
    IN [kind |-> "recipe", r |-> sr, aset |-> aset, aseq |-> SortedSeq(aset), A |-> A, reqs |-> ReqSets(sr), live |-> LiveReq(sr),
        refused |-> refusedSure, generates |-> generatesSure,
        canBeEmpty |-> ~generatesSure \/ LiveReq(sr) # {},       \* refused, or every attempt may fail
        uniform |-> (generatesSure /\ LiveReq(sr) = {}) \/ refusedSure,   \* always succeeds at the first attempt, or always ""
        count |-> IF generatesSure /\ c.sepZeroEnt = 0 THEN CountValidBig(sr) ELSE One,     \* what the function reports
        nvals |-> IF generatesSure THEN CountValidBig(sr) ELSE One,                         \* how many values it really has
        isFunc |-> TRUE]
  ELSE IF c.sepKind = "list" THEN     \* a caller-written function: one of the listed values (possibly empty), uniformly, reporting log2(#values)
    [kind |-> "list", vals |-> SeqSet(c.wl.sepVals), canBeEmpty |-> <<>> \in SeqSet(c.wl.sepVals), uniform |-> TRUE,
     count |-> FromInt(Len(c.wl.sepVals)), nvals |-> FromInt(Len(c.wl.sepVals)), isFunc |-> TRUE, refused |-> FALSE, generates |-> TRUE]
  ELSE IF c.sepKind = "none" THEN
    [kind |-> "none", canBeEmpty |-> TRUE, uniform |-> TRUE, count |-> One, nvals |-> One, isFunc |-> TRUE, refused |-> FALSE, generates |-> TRUE]
  ELSE
    [kind |-> "char", val |-> c.wl.sepChar, canBeEmpty |-> c.wl.sepChar = <<>>, uniform |-> TRUE, count |-> One, nvals |-> One, isFunc |-> FALSE,
     refused |-> FALSE, generates |-> TRUE]

InfoOf(c) ==
  LET ins == InputSet(c)
      TP == {<<c.wl.words[i], c.titles[i]>> : i \in DOMAIN c.wl.words}        \* the environment function Title as a set of pairs
      keptSpec == ins \ {p[2] : p \in {q \in TP : q[2] # q[1]}}                 \* WordListCtor!KeptSpec
      kept == SeqSet(c.kept)
      changing == {p \in TP : p[1] \in keptSpec /\ p[2] # p[1]}                 \* kept words that change under title-casing
  IN [kept |-> kept, titled |-> {c.keptTitles[i] : i \in DOMAIN c.keptTitles}, keptSeq |-> c.kept, keptTitleSeq |-> c.keptTitles,
      keptSpec |-> keptSpec,
      allCap |-> \A p \in TP : p[1] \in keptSpec => p[2] # p[1],
      \* premise of C04/C06: no two entries share a title-cased form unless one of them is that form,
      \* i.e. title-casing is injective on the kept words it changes
      premise |-> Cardinality({p[2] : p \in changing}) = Cardinality(changing),
      titlesConsistent |-> \A i \in DOMAIN c.kept : <<c.kept[i], c.keptTitles[i]>> \in TP \/ c.kept[i] \notin ins,
      sep |-> SepInfo(c), L |-> c.wl.len, cap |-> c.wl.cap, size |-> c.size]

\* the integer whose log2 the entropy formula must report (WordGen!EntropyCount at full size)
EntropyCountBig(c, inf) ==
  LET L == c.wl.len
      capf == IF ~inf.allCap THEN One
              ELSE IF c.wl.cap = "random" THEN Shl(One, L)
              ELSE IF c.wl.cap = "one" THEN FromInt(L) ELSE One
  IN Mul(Mul(Pow(FromInt(c.size), L), capf), Pow(inf.sep.count, L - 1))

\* C08: "depends only on the recipe and the SET OF WORDS SUPPLIED" - the same formula over the specified kept set
\* (WordListCtor!KeptSpec of the input), whatever list object the constructor handed back
EntropySpecCountBig(c, inf) ==
  LET L == c.wl.len
      capf == IF ~inf.allCap THEN One
              ELSE IF c.wl.cap = "random" THEN Shl(One, L)
              ELSE IF c.wl.cap = "one" THEN FromInt(L) ELSE One
  IN Mul(Mul(Pow(FromInt(Cardinality(inf.keptSpec)), L), capf), Pow(inf.sep.count, L - 1))

\* the number of distinct passwords of an all-capitalisable recipe (differs from EntropyCountBig only when a
\* caller-written separator function under-reports its own entropy)
PasswordCountBig(c, inf) ==
  LET L == c.wl.len
      capf == IF c.wl.cap = "random" THEN Shl(One, L) ELSE IF c.wl.cap = "one" THEN FromInt(L) ELSE One
  IN Mul(Mul(Pow(FromInt(c.size), L), capf), Pow(inf.sep.nvals, L - 1))

CellWhys(c, inf) ==
  IF c.ctorErr # 0 THEN
    <<IF c.ctorErr = 2 THEN "P:C10:NewWordList-panicked" ELSE "ok",
      IF c.ctorErr = 1 /\ c.wl.words # <<>> THEN "P:C10:NewWordList-rejected-a-non-empty-list" ELSE "ok",
      IF c.inputTouched = 1 THEN "P:C10:callers-slice-modified" ELSE "ok">>
  ELSE IF ~HasList(c) THEN <<"ok">>
  ELSE
  <<IF c.wl.words = <<>> THEN "P:C10:empty-list-accepted" ELSE "ok",
    IF SeqSet(c.kept) # inf.keptSpec THEN "P:C10:kept-words-are-not-the-input-set-minus-capitalised-twins" ELSE "ok",
    IF Len(c.kept) # Cardinality(SeqSet(c.kept)) THEN "P:C10:kept-list-contains-duplicates" ELSE "ok",
    IF c.size # Cardinality(inf.keptSpec) THEN "P:C10:Size()-is-not-the-number-of-words-kept" ELSE "ok",
    IF c.inputTouched = 1 THEN "P:C10:callers-slice-modified" ELSE "ok",
    IF c.aliased = 1 THEN "P:C10:the-list-changes-when-the-caller-later-reuses-the-slice-it-passed-in" ELSE "ok",
    IF c.prevChg > 0 THEN "P:C05:a-password-returned-earlier-changed-when-a-later-one-was-generated" ELSE "ok",
    IF c.prevChg > 0 THEN "P:C15:a-password-returned-earlier-changed-when-a-later-one-was-generated" ELSE "ok",
    IF c.errChg > 0 THEN "P:C15:an-error-returned-by-an-earlier-call-changed-when-a-later-call-was-made" ELSE "ok",
    IF c.mutated = 1 THEN "P:C15:call-changed-the-recipe-or-the-word-list" ELSE "ok",
    IF c.twinDiff = 1 THEN "P:C15:results-differ-from-a-fresh-recipe-with-the-same-field-values-on-the-same-bytes" ELSE "ok",
    IF c.ent.k = "panic" THEN "P:C14:Entropy()-panicked-on-a-recipe-with-a-list" ELSE "ok",
    IF c.ent.k = "nan" THEN "P:C08:entropy-is-NaN" ELSE "ok",
    IF c.ent.k # "panic" /\ ~SameFloat(c.ent, c.ent2) THEN "P:C08:entropy-differs-between-calls" ELSE "ok",
    IF c.ent.k \notin {"panic", "nan"} /\ c.wl.len >= 1 /\ c.size >= 1 /\ (inf.sep.generates \/ inf.sep.refused)
       /\ ~EntropyIsLog2(c.ent, EntropyCountBig(c, inf), Tol)
      THEN "P:C08:entropy-is-not-the-documented-formula" ELSE "ok",
    IF c.ent.k \notin {"panic", "nan"} /\ c.wl.len >= 1 /\ inf.keptSpec # {} /\ (inf.sep.generates \/ inf.sep.refused)
       /\ ~EntropyIsLog2(c.ent, EntropySpecCountBig(c, inf), Tol)
      THEN "P:C08:entropy-is-not-the-formula-over-the-set-of-words-supplied" ELSE "ok"
  >>

\* the same multiset of words and the same recipe, constructed again (permuted, repeated): everything observable must agree
GroupWhys(e) ==
  IF e.grp > 0 /\ prevG.op = "wcell" /\ prevG.grp = e.grp THEN
    <<IF SeqSet(e.kept) # SeqSet(prevG.kept) \/ e.size # prevG.size THEN "P:C10:kept-set-differs-between-constructions-of-the-same-words" ELSE "ok",
      IF e.ent.k # prevG.ent.k \/ ~SameFloat(e.ent, prevG.ent) THEN "P:C08:entropy-differs-between-constructions-of-the-same-words" ELSE "ok">>
  ELSE <<"ok">>

\* ---------------- leaf: structure (WordGen!StructureOK on concrete text) ----------------
AtomsOf(ts) == SelectSeq(ts, LAMBDA t : t.t = 1)
SepsOf(ts) == SelectSeq(ts, LAMBDA t : t.t = 0)
SepValueOK(s) ==
  CASE info.sep.kind = "char" -> s = info.sep.val /\ s # <<>>
    [] info.sep.kind = "none" -> FALSE
    [] info.sep.kind = "list" -> s \in info.sep.vals /\ s # <<>>
    [] OTHER -> LET sr == info.sep.r IN
                 /\ Len(s) = sr.len /\ \A p \in DOMAIN s : s[p] \in info.sep.aset
                 /\ \A i \in info.sep.live : \E p \in DOMAIN s : s[p] \in info.sep.reqs[i]
RECURSIVE Interleaved(_,_)
Interleaved(ts, expectAtom) ==
  IF ts = <<>> THEN ~expectAtom
  ELSE IF expectAtom THEN Head(ts).t = 1 /\ Interleaved(Tail(ts), FALSE)
  ELSE IF Head(ts).t = 0 THEN SepValueOK(Head(ts).v) /\ Tail(ts) # <<>> /\ Interleaved(Tail(ts), TRUE)
  ELSE info.sep.canBeEmpty /\ Interleaved(ts, TRUE)
CapShapeOK(as) ==
  LET n == Len(as)
      low(k) == as[k].v \in info.kept
      up(k)  == as[k].v \in info.titled
  IN CASE info.cap = "first"  -> up(1) /\ \A k \in 2..n : low(k)
       [] info.cap = "all"    -> \A k \in 1..n : up(k)
       [] info.cap = "one"    -> \E c \in 1..n : up(c) /\ \A k \in (1..n) \ {c} : low(k)
       [] info.cap = "random" -> \A k \in 1..n : low(k) \/ up(k)
       [] OTHER               -> \A k \in 1..n : low(k)
RECURSIVE Concat(_,_)
Concat(ts, i) == IF i > Len(ts) THEN <<>> ELSE ts[i].v \o Concat(ts, i+1)

\* ---------------- leaf: the WordGen machine along the recorded index path ----------------
\* nested separator generation: CharGen replay returning the value ("" when refused/exhausted) and the remaining draws
RECURSIVE NReplay(_,_,_)
NReplay(ds, t, mt) ==
  LET sp == info.sep
      L == sp.r.len
  IN IF t > mt THEN [ok |-> TRUE, val |-> <<>>, rest |-> ds]
     ELSE IF Len(ds) < L THEN [ok |-> FALSE, val |-> <<>>, rest |-> ds]
     ELSE IF \E p \in 1..L : ds[p][1] # sp.A \/ ds[p][2] >= sp.A THEN [ok |-> FALSE, val |-> <<>>, rest |-> ds]
     ELSE LET cand == [p \in 1..L |-> sp.aseq[ds[p][2] + 1]]
              rest == SubSeq(ds, L + 1, Len(ds))
          IN IF \A i \in sp.live : \E p \in 1..L : cand[p] \in sp.reqs[i]
             THEN [ok |-> TRUE, val |-> cand, rest |-> rest]
             ELSE NReplay(rest, t + 1, mt)
SepCall(ds, mt) ==
  CASE info.sep.kind = "char" -> [ok |-> TRUE, val |-> info.sep.val, rest |-> ds]
    [] info.sep.kind = "none" -> [ok |-> TRUE, val |-> <<>>, rest |-> ds]
    [] info.sep.kind = "list" -> IF ds # <<>> /\ ds[1][1] = Len(cell.wl.sepVals) /\ ds[1][2] < Len(cell.wl.sepVals)
                                 THEN [ok |-> TRUE, val |-> cell.wl.sepVals[ds[1][2] + 1], rest |-> Tail(ds)]
                                 ELSE [ok |-> FALSE, val |-> <<>>, rest |-> ds]
    [] OTHER -> IF info.sep.refused THEN [ok |-> TRUE, val |-> <<>>, rest |-> ds]
                ELSE IF ~info.sep.generates THEN [ok |-> FALSE, val |-> <<>>, rest |-> ds]     \* inside the refusal band: not replayed
                ELSE NReplay(ds, 1, mt)

\* caps from the head of the draws
CapsParse(ds) ==
  LET L == info.L IN
  CASE info.cap = "first" -> [ok |-> TRUE, caps |-> {0}, rest |-> ds]
    [] info.cap = "all" -> [ok |-> TRUE, caps |-> 0..(L-1), rest |-> ds]
    [] info.cap = "one" -> IF Len(ds) >= 1 /\ ds[1][1] = L THEN [ok |-> TRUE, caps |-> {ds[1][2]}, rest |-> Tail(ds)]
                           ELSE [ok |-> FALSE, caps |-> {}, rest |-> ds]
    [] info.cap = "random" -> IF Len(ds) >= L /\ \A k \in 1..L : ds[k][1] = 2
                              THEN [ok |-> TRUE, caps |-> {k \in 0..(L-1) : ds[k+1][2] = 1}, rest |-> SubSeq(ds, L+1, Len(ds))]
                              ELSE [ok |-> FALSE, caps |-> {}, rest |-> ds]
    [] OTHER -> [ok |-> TRUE, caps |-> {}, rest |-> ds]

RECURSIVE WReplay(_,_,_,_,_)
WReplay(c, k, ds, caps, out) ==
  IF k = info.L THEN
     \* p.Entropy = r.Entropy(): one more separator call when a separator function is set (WLEntropyDrawsSeparator)
     LET fin == IF info.sep.isFunc THEN SepCall(ds, c.maxTrials) ELSE [ok |-> TRUE, val |-> <<>>, rest |-> ds]
     IN IF fin.ok /\ fin.rest = <<>> THEN [ok |-> TRUE, toks |-> out] ELSE [ok |-> FALSE, toks |-> out]
  ELSE IF ds = <<>> \/ ds[1][1] # info.size \/ ds[1][2] >= info.size \/ ds[1][2] >= Len(info.keptSeq) THEN [ok |-> FALSE, toks |-> out]
  ELSE LET w == info.keptSeq[ds[1][2] + 1]
           atom == IF k \in caps THEN info.keptTitleSeq[ds[1][2] + 1] ELSE w
           out1 == IF atom # <<>> THEN Append(out, [v |-> atom, t |-> 1]) ELSE out      \* SkipEmptyAtom
           rest == Tail(ds)
       IN IF k < info.L - 1 THEN
            LET sc == SepCall(rest, c.maxTrials) IN
            IF ~sc.ok THEN [ok |-> FALSE, toks |-> out1]
            ELSE WReplay(c, k + 1, sc.rest, caps, IF sc.val # <<>> THEN Append(out1, [v |-> sc.val, t |-> 0]) ELSE out1)
          ELSE WReplay(c, k + 1, rest, caps, out1)
Machine(c, lf) ==
  LET cp == CapsParse(lf.d) IN
  IF ~cp.ok THEN [ok |-> FALSE, toks |-> <<>>] ELSE WReplay(c, 0, cp.rest, cp.caps, <<>>)
Replayable == info.sep.kind # "recipe" \/ info.sep.refused \/ info.sep.generates
\* Entropy() asks the separator function for its entropy by generating one separator; a separator recipe WITH requirements can
\* exhaust its attempt budget on that call (probability <= MaxFailRate by design), which makes the value tape-dependent: not compared bitwise
SepEntropyFixed == info.sep.kind # "recipe" \/ info.sep.refused \/ (info.sep.generates /\ info.sep.live = {})

\* a call made concurrently with others (C14): only what it returned can be judged
ConcWhys(c, lf) ==
  LET res == lf.res
      as == AtomsOf(res.toks)
  IN
  <<IF res.kind = "panic" THEN "P:C14:call-panicked-under-concurrency" ELSE "ok",
    IF res.kind = "ok" /\ ~(/\ Len(as) = c.wl.len /\ Interleaved(res.toks, TRUE) /\ CapShapeOK(as)
                            /\ (info.sep.canBeEmpty \/ Len(SepsOf(res.toks)) = c.wl.len - 1)
                            /\ res.str = Concat(res.toks, 1))
      THEN "P:C14:password-returned-under-concurrency-violates-its-recipe" ELSE "ok",
    IF res.kind = "ok" /\ SepEntropyFixed /\ ~SameFloat(res.ent, c.ent) THEN "P:C14:password-returned-under-concurrency-does-not-carry-the-recipes-entropy" ELSE "ok",
    IF res.kind = "entropy" /\ SepEntropyFixed /\ ~SameFloat(res.ent, c.ent) THEN "P:C14:Entropy()-under-concurrency-differs-from-the-recipes-entropy" ELSE "ok",
    IF res.kind = "size" /\ res.str # <<2 * c.size>> THEN "P:C14:Size()-under-concurrency-differs" ELSE "ok",
    IF res.kind = "err" THEN "P:C14:call-failed-under-concurrency" ELSE "ok"
  >>

LeafWhys(c, lf) ==
  IF lf.res.kind = "cut" THEN <<"ok">> ELSE
  IF lf.conc = 1 THEN ConcWhys(c, lf) ELSE
  LET res == lf.res
      honourable == HasList(c) /\ c.size >= 1 /\ c.wl.len >= 1
      as == AtomsOf(res.toks)
  IN
  <<IF res.kind = "panic" THEN "P:C13:Generate-panicked" ELSE "ok",
    IF res.kind \in {"errpw", "nil"} THEN "P:C13:error-together-with-a-password-or-neither" ELSE "ok",
    IF res.kind = "err" /\ honourable THEN "P:C13:error-for-a-recipe-that-can-be-honoured" ELSE "ok",
    IF res.kind = "ok" /\ ~honourable THEN "P:C13:password-for-a-recipe-that-cannot-be-honoured" ELSE "ok",
    IF res.kind = "ok" /\ honourable /\ \E i \in DOMAIN res.toks : res.toks[i].t \notin {0, 1} THEN "P:C05:token-of-unknown-type" ELSE "ok",
    IF res.kind = "ok" /\ honourable /\ Len(as) # c.wl.len THEN "P:C05:number-of-atoms-is-not-Length" ELSE "ok",
    IF res.kind = "ok" /\ honourable /\ ~Interleaved(res.toks, TRUE) THEN "P:C05:separators-not-exactly-between-adjacent-atoms" ELSE "ok",
    IF res.kind = "ok" /\ honourable /\ ~info.sep.canBeEmpty /\ Len(SepsOf(res.toks)) # c.wl.len - 1 THEN "P:C05:missing-or-extra-separator-token" ELSE "ok",
    IF res.kind = "ok" /\ honourable /\ Len(as) = c.wl.len /\ ~CapShapeOK(as) THEN "P:C05:atoms-are-not-list-words-capitalised-as-the-scheme-prescribes" ELSE "ok",
    IF res.kind = "ok" /\ honourable /\ \E k \in DOMAIN as : as[k].v \notin info.kept \cup info.titled THEN "P:C10:atom-is-neither-a-kept-word-nor-its-title-cased-form" ELSE "ok",
    IF res.kind = "ok" /\ res.str # Concat(res.toks, 1) THEN "P:C05:String()-is-not-the-concatenation-of-token-values" ELSE "ok",
    IF res.kind = "ok" /\ res.as = 1 /\ ~(/\ res.atoms = [k \in DOMAIN SelectSeq(res.toks, LAMBDA t : t.t = 1) |-> SelectSeq(res.toks, LAMBDA t : t.t = 1)[k].v]
                                          /\ res.seps = [k \in DOMAIN SelectSeq(res.toks, LAMBDA t : t.t = 0) |-> SelectSeq(res.toks, LAMBDA t : t.t = 0)[k].v])
      THEN "P:C05:Atoms()-or-Separators()-are-not-the-values-of-that-type-in-order" ELSE "ok",
    \* a separator made by NewSFFunction is the password of a character recipe: one that Generate must refuse (C13's band on the exact
    \* success fraction, under the budget in force) yields the empty separator, never a separator token
    IF res.kind = "ok" /\ honourable /\ info.sep.kind = "recipe" /\ info.sep.refused /\ ~HasEmptiedReq(info.sep.r) /\ SepsOf(res.toks) # <<>>
      THEN "P:C13:a-separator-recipe-that-Generate-must-refuse-produced-a-separator" ELSE "ok",
    IF res.kind = "ok" /\ c.ent.k # "panic" /\ SepEntropyFixed /\ ~SameFloat(res.ent, c.ent) THEN "P:C06:Password.Entropy-differs-from-recipe-Entropy()" ELSE "ok",
    \* the choices of this very run are made with probability 1/pp (pp = product of the bounds of all its draws, each index having
    \* probability 1/bound by C01) and determine the password, so the password has at least that probability: pp >= 2^Entropy
    IF lf.ppc = 1 /\ res.kind = "ok" /\ lf.unann = 0 /\ lf.left = 0 /\ res.ent.k = "fin" /\ lf.pp # <<>> /\ ~EntropyNotAbove(res.ent, lf.pp, Tol)
      THEN "P:C06:the-choices-that-produced-this-password-are-likelier-than-2^-Entropy" ELSE "ok",
    \* Process!LimitsAreTheCallers: MaxTrials / MaxFailRate are the caller's; a call that writes them (even to put them back later)
    \* races with every concurrent call that reads them, and runs itself under limits nobody configured
    IF lf.cfg = 1 THEN "P:C14:a-call-changed-the-process-wide-attempt-limits-while-it-ran" ELSE "ok",
    IF lf.cfg = 1 THEN "P:C13:the-attempt-limits-in-force-during-a-call-are-not-the-configured-ones" ELSE "ok",
    IF lf.det = 0 THEN "P:C09:same-choices-from-the-source-gave-a-different-result" ELSE "ok",
    IF res.kind = "ok" /\ lf.reads = 0 /\ c.size > 1 THEN "P:C09:password-produced-without-reading-the-random-source" ELSE "ok",
    IF lf.unann > 0 THEN "S:random-source-read-without-an-announced-bounded-draw" ELSE "ok",
    IF lf.left > 0 THEN "S:announced-draw-did-not-read-the-source" ELSE "ok",
    IF res.kind = "ok" /\ honourable /\ lf.unann = 0 /\ lf.trunc = 0 /\ Replayable
       /\ ~(LET m == Machine(c, lf) IN m.ok /\ m.toks = res.toks)
      THEN "S:WordGen-machine-disagrees" ELSE "ok"
  >>

\* ---------------- the distribution WordGen prescribes, on the concrete list ----------------
\* C04 fixes the joint law of (capitalised positions, word indices, separator values): uniform and independent.
\* Its image on token sequences is computed here by enumerating WordGen!Paths and folding WordGen!Build.
SepValues == CASE info.sep.kind = "char" -> {info.sep.val}
               [] info.sep.kind = "none" -> {<<>>}
               [] info.sep.kind = "list" -> info.sep.vals
               [] OTHER -> IF info.sep.refused THEN {<<>>} ELSE ValidStrings(info.sep.r)
CapChoices == LET L == info.L IN
              CASE info.cap = "first" -> {{0}} [] info.cap = "all" -> {0..(L-1)}
                [] info.cap = "one" -> {{k} : k \in 0..(L-1)} [] info.cap = "random" -> SUBSET (0..(L-1))
                [] OTHER -> {{}}
SpecPaths == {<<cs, ws, ss>> : cs \in CapChoices, ws \in [0..(info.L-1) -> 1..info.size], ss \in [0..(info.L-2) -> SepValues]}
RECURSIVE BuildOut(_,_)
BuildOut(p, k) ==
  IF k = info.L THEN <<>>
  ELSE LET w == IF k \in p[1] THEN info.keptTitleSeq[p[2][k]] ELSE info.keptSeq[p[2][k]]
           sv == IF k < info.L - 1 THEN p[3][k] ELSE <<>>
       IN (IF w # <<>> THEN <<<<1, w>>>> ELSE <<>>) \o (IF sv # <<>> THEN <<<<0, sv>>>> ELSE <<>>) \o BuildOut(p, k+1)
SpecDist == FoldSet(LAMBDA p, f : LET o == BuildOut(p, 0) IN IF o \in DOMAIN f THEN [f EXCEPT ![o] = @ + 1] ELSE f @@ (o :> 1),
                    <<>>, SpecPaths)
SpecPathCount == Cardinality(CapChoices) * IPow(info.size, info.L) * IPow(Cardinality(SepValues), info.L - 1)
\* a*b <= c*d without TLC's 32-bit overflow (masses have denominators up to 2^31)
ProdLeq(a, b, c, d) == ~Lt(Mul(FromInt(c), FromInt(d)), Mul(FromInt(a), FromInt(b)))
DistDecidable(c) == info.sep.uniform /\ failW = 0 /\ c.wl.len >= 1 /\ c.size >= 1 /\ c.size = Len(c.kept) /\ Len(c.keptTitles) = Len(c.kept)
                    /\ SpecPathCount <= 4000

\* which atoms of a returned password are in title-cased form (only meaningful when every kept word changes under title-casing)
PatternOf(key) == LET as == SelectSeq(key, LAMBDA t : t[1] = 1) IN {k \in 1..Len(as) : as[k][2] \in info.titled /\ as[k][2] \notin info.kept}
ExpectedPatterns == LET L == info.L IN
  CASE info.cap = "first" -> {{1}} [] info.cap = "all" -> {1..L} [] info.cap = "one" -> {{k} : k \in 1..L}
    [] info.cap = "random" -> SUBSET (1..L) [] OTHER -> {{}}

\* ---------------- cellend ----------------
Weights == {acc[s] : s \in DOMAIN acc}
MaxW == CHOOSE w \in Weights : \A v \in Weights : v <= w
Decidable(c) == c.op = "wcell" /\ c.ctorErr = 0 /\ c.complete = 1 /\ c.opaque = 0 /\ c.unstable = 0 /\ c.denInt > 0
EndWhys(c) ==
  IF ~Decidable(c) \/ DOMAIN acc = {} THEN <<"ok">>
  ELSE
  <<IF totW # c.denInt THEN "H:leaf-masses-do-not-sum-to-one" ELSE "ok",
    IF nleaf # c.nleaves THEN "H:leaf-count" ELSE "ok",
    \* C04: all possible passwords equally likely when every word is capitalisable (and separators are uniform)
    IF info.allCap /\ info.premise /\ info.sep.uniform /\ failW = 0 /\ cutW = 0 /\ Cardinality(Weights) # 1
      THEN "P:C04:passwords-of-the-recipe-are-not-equally-likely" ELSE "ok",
    IF info.allCap /\ info.premise /\ info.sep.uniform /\ failW = 0 /\ cutW = 0
       /\ FromInt(Cardinality(DOMAIN acc)) # PasswordCountBig(c, info)
      THEN "P:C04:number-of-distinct-passwords-differs-from-words^L-x-capitalisations-x-separators" ELSE "ok",
    \* C05: the capitalised positions are exactly the ones the scheme can select - every such selection occurs, no other does
    IF info.allCap /\ info.premise /\ failW = 0 /\ cutW = 0 /\ c.wl.len >= 1 /\ c.size >= 1 /\ c.wl.len <= 8
       /\ {PatternOf(o) : o \in DOMAIN acc} # ExpectedPatterns
      THEN "P:C05:capitalised-positions-are-not-exactly-those-the-scheme-can-select" ELSE "ok",
    \* C04 in general (also with uncapitalisable words): the measured distribution is the image of the uniform, independent choices
    IF DistDecidable(c) /\ ~(LET sd == SpecDist
                                n == SpecPathCount
                            \* runs abandoned by the harness (cutW) have an unknown outcome: the real mass of o lies in
                            \* [acc[o], acc[o] + cutW]; with cutW = 0 this is equality
                            IN /\ DOMAIN acc \subseteq DOMAIN sd
                               /\ (cutW = 0 => DOMAIN sd = DOMAIN acc)
                               /\ \A o \in DOMAIN acc : ProdLeq(acc[o], n, sd[o], totW) /\ ProdLeq(sd[o], totW, acc[o] + cutW, n)
                               /\ \A o \in (DOMAIN sd) \ (DOMAIN acc) : ProdLeq(sd[o], totW, cutW, n))
      THEN "P:C04:password-distribution-is-not-that-of-uniform-independent-word-capitalisation-and-separator-choices" ELSE "ok",
    \* C06: no password likelier than 2^-Entropy (min-entropy), equality when uniform
    IF c.ent.k # "panic" /\ info.premise /\ info.sep.uniform /\
       ~(LET N == FromInt(c.denInt \div MaxW) IN
           IF c.denInt % MaxW = 0 THEN EntropyNotAbove(c.ent, N, Tol) ELSE EntropyNotAbove(c.ent, Add(N, One), Tol))
      THEN "P:C06:some-password-is-likelier-than-2^-Entropy" ELSE "ok",
    IF c.ent.k # "panic" /\ info.allCap /\ info.premise /\ info.sep.uniform /\ c.sepZeroEnt = 0 /\ failW = 0 /\ cutW = 0 /\ Cardinality(Weights) = 1 /\ c.denInt % MaxW = 0
       /\ ~EntropyIsLog2(c.ent, FromInt(c.denInt \div MaxW), Tol)
      THEN "P:C06:entropy-below-the-true-value-for-a-uniform-recipe" ELSE "ok"
  >>

\* a complete line: every value of ONE draw with all other draws fixed.  WordGen predicts which of these index paths give
\* different passwords; if the real code produces fewer different passwords, some alternative of that draw can never be
\* realised (e.g. a capital position that is never capitalised, a word index that is never reached)
LineWhys(c) ==
  IF c.op # "wcell" \/ c.lineOn # 1 THEN <<"ok">>
  ELSE <<IF Cardinality(lineReal) < Cardinality(linePred)
           THEN "P:C04:two-values-of-one-draw-give-the-same-password-where-uniform-choice-requires-different-ones" ELSE "ok">>

RECURSIVE BadOf(_,_,_)
BadOf(line, ws, i) == IF i > Len(ws) THEN <<>>
                      ELSE (IF ws[i] = "ok" THEN <<>> ELSE <<Bad(line, ws[i])>>) \o BadOf(line, ws, i+1)

Init == /\ l = 1 /\ bad = <<>> /\ cell = NoCell /\ info = NoCell /\ acc = <<>> /\ failW = 0 /\ cutW = 0 /\ totW = 0 /\ nleaf = 0 /\ done = FALSE
        /\ stats = [cells |-> 0, leaves |-> 0, decided |-> 0] /\ prevG = NoCell /\ lineReal = {} /\ linePred = {}

Key(res) == [i \in DOMAIN res.toks |-> <<res.toks[i].t, res.toks[i].v>>]

Step ==
  /\ l <= NLines
  /\ LET e == Trace[l] IN
     CASE e.op = "wcell" ->
            LET inf == IF e.ctorErr = 0 /\ HasList(e) THEN InfoOf(e) ELSE [sep |-> SepInfo(e), L |-> e.wl.len, cap |-> e.wl.cap, size |-> 0,
                                                                             kept |-> {}, titled |-> {}, keptSeq |-> <<>>, allCap |-> FALSE, premise |-> FALSE,
                                                                             keptTitleSeq |-> <<>>, keptSpec |-> {}, titlesConsistent |-> TRUE]
            IN /\ cell' = e /\ info' = inf /\ acc' = <<>> /\ failW' = 0 /\ cutW' = 0 /\ totW' = 0 /\ nleaf' = 0
               /\ bad' = bad \o BadOf(l, CellWhys(e, inf), 1) \o BadOf(l, GroupWhys(e), 1)
               /\ prevG' = IF e.grp > 0 THEN e ELSE prevG
               /\ lineReal' = {} /\ linePred' = {}
               /\ stats' = [stats EXCEPT !.cells = @ + 1]
       [] e.op = "wleaf" ->
            LET w == IF Decidable(cell) THEN ToInt(e.w) ELSE 0
                s == Key(e.res)
            IN /\ bad' = bad \o BadOf(l, LeafWhys(cell, e), 1)
               /\ acc' = IF e.res.kind = "ok" /\ Decidable(cell)
                         THEN (IF s \in DOMAIN acc THEN [acc EXCEPT ![s] = @ + w] ELSE acc @@ (s :> w))
                         ELSE acc
               /\ failW' = IF e.res.kind \in {"ok", "cut"} THEN failW ELSE failW + w
               /\ cutW' = IF e.res.kind = "cut" THEN cutW + w ELSE cutW
               /\ totW' = totW + w /\ nleaf' = nleaf + 1
               /\ stats' = [stats EXCEPT !.leaves = @ + 1]
               /\ IF cell.lineOn = 1 /\ e.res.kind = "ok"
                  THEN LET m == Machine(cell, e) IN
                       /\ lineReal' = lineReal \cup {s}
                       /\ linePred' = linePred \cup {IF m.ok THEN Key([toks |-> m.toks]) ELSE <<"unpredictable", nleaf>>}
                  ELSE UNCHANGED <<lineReal, linePred>>
               /\ UNCHANGED <<cell, info, prevG>>
       [] e.op = "wcellend" ->
            /\ bad' = bad \o BadOf(l, EndWhys(cell), 1) \o BadOf(l, LineWhys(cell), 1)
            /\ stats' = [stats EXCEPT !.decided = @ + (IF Decidable(cell) /\ DOMAIN acc # {} THEN 1 ELSE 0)]
            /\ cell' = NoCell /\ info' = NoCell /\ acc' = <<>> /\ failW' = 0 /\ cutW' = 0 /\ totW' = 0 /\ nleaf' = 0 /\ UNCHANGED prevG
            /\ lineReal' = {} /\ linePred' = {}
       [] e.op = "hang" ->   \* a call of a history did not return although the same call returned at once before an earlier call failed
            /\ bad' = bad \o <<Bad(l, "P:C15:a-call-made-after-an-earlier-call-failed-never-returns")>>
            /\ UNCHANGED <<cell, info, acc, failW, cutW, totW, nleaf, stats, prevG, lineReal, linePred>>
       [] OTHER -> /\ bad' = bad \o <<Bad(l, "H:unknown-op")>>
                   /\ UNCHANGED <<cell, info, acc, failW, cutW, totW, nleaf, stats, prevG, lineReal, linePred>>
  /\ l' = l + 1 /\ UNCHANGED done

Finish == /\ l = NLines + 1 /\ ~done
          /\ WriteResult(bad, stats)
          /\ done' = TRUE /\ UNCHANGED <<l, bad, cell, info, acc, failW, cutW, totW, nleaf, stats, prevG, lineReal, linePred>>

Next == Step \/ Finish
Spec == Init /\ [][Next]_vars
=============================================================================
