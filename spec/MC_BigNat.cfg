CONSTANTS
  B = 8
  MaxV = 700
SPECIFICATION Spec
INVARIANT Agree
CHECK_DEADLOCK FALSE
