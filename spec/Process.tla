------------------------------- MODULE Process -------------------------------
(***************************************************************************)
(* Process-wide state next to the recipe values of Api.tla:                *)
(*                                                                         *)
(*   limits   the attempt limits MaxTrials / MaxFailRate (char_gen.go).    *)
(*            They belong to the CALLER: the library reads them, at the    *)
(*            call, every time (hasAcceptableFailRate, the retry loop),    *)
(*            and never writes or remembers them.                          *)
(*   tables   what the library itself keeps per process (the class table   *)
(*            charTypeByFlag, the preset separator functions, the shipped  *)
(*            lists): constants - nothing a call computes is kept.         *)
(*                                                                         *)
(* A call is Begin ; Gate (the refusal decision reads the limits) ;        *)
(* Compute (the result) ; Return - separate steps, so TLC explores every   *)
(* interleaving of concurrent calls and every history of calls and         *)
(* caller-side changes of the limits.                                      *)
(*                                                                         *)
(* Three switches describe regressions met in seeded changes (all FALSE    *)
(* for spg; TLC refutes a property when one is TRUE):                      *)
(*   FreezeLimits   the first call's limits are remembered and reused      *)
(*   RaiseLimits    a call raises the limits while it runs and restores    *)
(*                  them when it returns (save / restore, not nesting-safe)*)
(*   MemoByKey      results are remembered under a key that does not       *)
(*                  determine the recipe (a lossy fingerprint)             *)
(***************************************************************************)
EXTENDS Integers, FiniteSets

CONSTANTS Goroutines,
          Recipes,        \* abstract recipe values (current public fields of the receiver)
          Keys,           \* what a memo could be keyed by
          KeyOf,          \* [Recipes -> Keys], not injective in the model
          Limits,         \* abstract values of (MaxTrials, MaxFailRate)
          Raised,         \* [Limits -> Limits]: what RaiseLimits turns a limit into
          MaxCalls, MaxSets,
          FreezeLimits, RaiseLimits, MemoByKey

None == <<"none">>
Result(r, l) == <<"result", r, l>>      \* outcome of a call: a function of the recipe and the limits in force, nothing else

VARIABLES limits,     \* the process-wide limits as the running code sees them
          configured, \* what the caller last set (ghost: the caller's intention)
          frozen,     \* library-side copy of the limits (None unless FreezeLimits)
          memo,       \* library-side [Keys -> result or None] (all None unless MemoByKey)
          pc,         \* [Goroutines -> "idle" | "begun" | "gated" | "computed"]
          arg,        \* recipe of the call in progress
          atCall,     \* configured limits when the call began
          used,       \* the limits the gate of this call read
          saved,      \* what a raising call will restore
          res, calls, sets
vars == <<limits, configured, frozen, memo, pc, arg, atCall, used, saved, res, calls, sets>>

TypeOK == /\ limits \in Limits /\ configured \in Limits /\ frozen \in Limits \cup {None}
          /\ memo \in [Keys -> {None} \cup {Result(r, l) : r \in Recipes, l \in Limits}]
          /\ pc \in [Goroutines -> {"idle", "begun", "gated", "computed"}]
          /\ arg \in [Goroutines -> Recipes] /\ atCall \in [Goroutines -> Limits] /\ used \in [Goroutines -> Limits]
          /\ saved \in [Goroutines -> Limits \cup {None}]

Init == /\ limits \in Limits /\ configured = limits /\ frozen = None /\ memo = [k \in Keys |-> None]
        /\ pc = [g \in Goroutines |-> "idle"] /\ arg \in [Goroutines -> Recipes]
        /\ atCall = [g \in Goroutines |-> limits] /\ used = [g \in Goroutines |-> limits]
        /\ saved = [g \in Goroutines |-> None] /\ res = [g \in Goroutines |-> None]
        /\ calls = [g \in Goroutines |-> 0] /\ sets = 0

Begin(g, r) == /\ pc[g] = "idle" /\ calls[g] < MaxCalls
               /\ arg' = [arg EXCEPT ![g] = r] /\ atCall' = [atCall EXCEPT ![g] = configured]
               /\ calls' = [calls EXCEPT ![g] = @ + 1]
               /\ IF RaiseLimits
                  THEN /\ saved' = [saved EXCEPT ![g] = limits] /\ limits' = Raised[limits]
                  ELSE UNCHANGED <<saved, limits>>
               /\ pc' = [pc EXCEPT ![g] = "begun"]
               /\ UNCHANGED <<configured, frozen, memo, used, res, sets>>
\* the refusal decision: reads the limits now (or the remembered ones)
Gate(g) == /\ pc[g] = "begun"
           /\ IF FreezeLimits
              THEN /\ frozen' = IF frozen = None THEN limits ELSE frozen
                   /\ used' = [used EXCEPT ![g] = IF frozen = None THEN limits ELSE frozen]
              ELSE /\ used' = [used EXCEPT ![g] = limits] /\ UNCHANGED frozen
           /\ pc' = [pc EXCEPT ![g] = "gated"]
           /\ UNCHANGED <<limits, configured, memo, arg, atCall, saved, res, calls, sets>>
Compute(g) == /\ pc[g] = "gated"
              /\ LET k == KeyOf[arg[g]]
                     fresh == Result(arg[g], used[g])
                 IN IF MemoByKey
                    THEN /\ res' = [res EXCEPT ![g] = IF memo[k] = None THEN fresh ELSE memo[k]]
                         /\ memo' = [memo EXCEPT ![k] = IF memo[k] = None THEN fresh ELSE memo[k]]
                    ELSE /\ res' = [res EXCEPT ![g] = fresh] /\ UNCHANGED memo
              /\ pc' = [pc EXCEPT ![g] = "computed"]
              /\ UNCHANGED <<limits, configured, frozen, arg, atCall, used, saved, calls, sets>>
Return(g) == /\ pc[g] = "computed"
             /\ IF RaiseLimits /\ saved[g] # None
                THEN /\ limits' = saved[g] /\ saved' = [saved EXCEPT ![g] = None]
                ELSE UNCHANGED <<limits, saved>>
             /\ pc' = [pc EXCEPT ![g] = "idle"]
             /\ UNCHANGED <<configured, frozen, memo, arg, atCall, used, res, calls, sets>>
\* the caller configures other limits (between calls)
SetLimits(l) == /\ sets < MaxSets /\ \A g \in Goroutines : pc[g] = "idle"
                /\ limits' = l /\ configured' = l /\ sets' = sets + 1
                /\ UNCHANGED <<frozen, memo, pc, arg, atCall, used, saved, res, calls>>

Next == \/ \E g \in Goroutines, r \in Recipes : Begin(g, r)
        \/ \E g \in Goroutines : Gate(g) \/ Compute(g) \/ Return(g)
        \/ \E l \in Limits : SetLimits(l)
Spec == Init /\ [][Next]_vars

\* ---- properties ----
\* C13/C16: the refusal decision and the retry bound follow the limits configured at the call
\* C15: a call's outcome is a function of the recipe and those limits - not of earlier or concurrent calls
ResultFollowsRecipeAndConfiguredLimits == \A g \in Goroutines : pc[g] = "computed" => res[g] = Result(arg[g], atCall[g])
\* C14: no call writes process-wide state that other calls read
LimitsAreTheCallers == limits = configured
LibraryRemembersNothing == frozen = None /\ \A k \in Keys : memo[k] = None
OnlyTheCallerChangesLimits == [][(\A l \in Limits : ~SetLimits(l)) => limits' = limits]_vars
\* when everything has returned the limits are what the caller set (a save/restore pair that is not nesting-safe breaks this for good)
QuiescentLimits == (\A g \in Goroutines : pc[g] = "idle") => limits = configured
=============================================================================
