------------------------------- MODULE CharGen -------------------------------
(***************************************************************************)
(* CharRecipe.Generate (char_gen.go:109-140) as a state machine, one       *)
(* action per guard / draw / loop iteration of the code.  The environment  *)
(* chooses every draw index (the random tape, already reduced to an index  *)
(* by Draw.tla) and may fail the random source at any draw.                *)
(*                                                                         *)
(* Environment globals: MaxTrials (attempt budget) and the refusal rule.   *)
(* The real rule is (1-p)^MaxTrials <= MaxFailRate in floating point; the  *)
(* specification states it as a band on the exact success fraction p =     *)
(* CountValid/|A|^L:  RefuseBelow <= p-threshold <= ProceedAbove (per      *)
(* mille), inside which either outcome is allowed.  FailRateOne models     *)
(* MaxFailRate = 1 (never refuse unless p = 0).  The model uses the wide   *)
(* band 0.085 .. 0.11; the trace specification (CharTrace!InfoOf) narrows  *)
(* it to 0.09838 .. 0.09851 around the exact threshold 0.0984468 for       *)
(* recipes of length <= 2, where the library's float32 error is < 2e-6.    *)
(***************************************************************************)
EXTENDS CharSets, TLC

CONSTANTS Recipes,      \* the recipe universe explored
          MaxTrialsSet, \* values of the MaxTrials global explored
          FailRateOne   \* TRUE: MaxFailRate = 1;  FALSE: default 1e-9 with 200 trials (band 85..110 per mille)

VARIABLES r,        \* the recipe (a copy: value receiver)
          mt,       \* MaxTrials
          pc,       \* "start" "entropy" "built" "preflight" "drawing" "filter" "done" "err" "panic"
          trial,    \* attempts started
          cand,     \* candidate being built
          out,      \* returned tokens (sequence of characters), <<>> if none
          errKind,  \* "" | "length" | "nochars" | "failrate" | "exhausted"
          draws     \* number of draws made (observation only)
vars == <<r, mt, pc, trial, cand, out, errKind, draws>>

Alpha == SortedSeq(Alphabet(r))     \* draw index i selects Alpha[i+1]
A == Cardinality(Alphabet(r))

\* exact success fraction of one attempt: CountValidInt / A^L  (a required set emptied by
\* exclusion makes the code's count 0: named deviation EmptiedRequiredSetRefused)
CodeCount == IF HasEmptiedReq(r) THEN 0 ELSE CountValidInt(r)
Denominator == IPow(A, r.len)
MustRefuse == CodeCount = 0 \/ (~FailRateOne /\ CodeCount * 1000 <= 85 * Denominator)
MayProceed == CodeCount > 0 /\ (FailRateOne \/ CodeCount * 1000 > 85 * Denominator)
MayRefuse  == CodeCount = 0 \/ (~FailRateOne /\ CodeCount * 1000 < 110 * Denominator)

Init == /\ r \in Recipes /\ mt \in MaxTrialsSet
        /\ pc = "start" /\ trial = 0 /\ cand = <<>> /\ out = <<>> /\ errKind = "" /\ draws = 0

LengthErr == /\ pc = "start" /\ r.len < 1
             /\ pc' = "err" /\ errKind' = "length" /\ UNCHANGED <<r, mt, trial, cand, out, draws>>
ComputeEntropy == /\ pc = "start" /\ r.len >= 1
                  /\ pc' = "entropy" /\ UNCHANGED <<r, mt, trial, cand, out, errKind, draws>>
BuildAlphabet == /\ pc = "entropy"
                 /\ pc' = "built" /\ UNCHANGED <<r, mt, trial, cand, out, errKind, draws>>
EmptyAlphabetErr == /\ pc = "built" /\ A = 0
                    /\ pc' = "err" /\ errKind' = "nochars" /\ UNCHANGED <<r, mt, trial, cand, out, draws>>
PreflightRefuse == /\ pc = "built" /\ A > 0 /\ MayRefuse
                   /\ pc' = "err" /\ errKind' = "failrate" /\ UNCHANGED <<r, mt, trial, cand, out, draws>>
PreflightPass == /\ pc = "built" /\ A > 0 /\ MayProceed
                 /\ pc' = "preflight" /\ UNCHANGED <<r, mt, trial, cand, out, errKind, draws>>
StartTrial == /\ pc = "preflight" /\ trial < mt
              /\ trial' = trial + 1 /\ cand' = <<>> /\ pc' = "drawing"
              /\ UNCHANGED <<r, mt, out, errKind, draws>>
Exhausted == /\ pc = "preflight" /\ trial >= mt
             /\ pc' = "err" /\ errKind' = "exhausted" /\ UNCHANGED <<r, mt, trial, cand, out, draws>>
DrawChar(i) == /\ pc = "drawing" /\ Len(cand) < r.len /\ i \in 0..(A-1)
               /\ cand' = Append(cand, Alpha[i+1]) /\ draws' = draws + 1
               /\ pc' = IF Len(cand) + 1 = r.len THEN "filter" ELSE "drawing"
               /\ UNCHANGED <<r, mt, trial, out, errKind>>
DrawFault == /\ pc = "drawing"      \* the random source fails: panic, nothing returned
             /\ pc' = "panic" /\ UNCHANGED <<r, mt, trial, cand, out, errKind, draws>>
FilterAccept == /\ pc = "filter" /\ Satisfies(r, cand)
                /\ out' = cand /\ pc' = "done" /\ UNCHANGED <<r, mt, trial, cand, errKind, draws>>
FilterReject == /\ pc = "filter" /\ ~Satisfies(r, cand)
                /\ pc' = "preflight" /\ UNCHANGED <<r, mt, trial, cand, out, errKind, draws>>

Next == \/ LengthErr \/ ComputeEntropy \/ BuildAlphabet \/ EmptyAlphabetErr \/ PreflightRefuse \/ PreflightPass
        \/ StartTrial \/ Exhausted \/ (\E i \in 0..(A-1) : DrawChar(i)) \/ DrawFault \/ FilterAccept \/ FilterReject
Spec == Init /\ [][Next]_vars /\ WF_vars(Next)

\* ---- properties ----
TypeOK == pc \in {"start", "entropy", "built", "preflight", "drawing", "filter", "done", "err", "panic"}
\* C03: whatever is returned satisfies the recipe
OutValid == pc = "done" => IsValid(r, out)
NoOutputUnlessDone == pc # "done" => out = <<>>
\* C13: attempts are bounded, errors exactly in the documented cases
TrialsBounded == trial <= mt /\ draws <= mt * (IF r.len > 0 THEN r.len ELSE 0)
ErrIff == pc = "err" =>
            \/ errKind = "length" /\ r.len < 1
            \/ errKind = "nochars" /\ r.len >= 1 /\ A = 0
            \/ errKind = "failrate" /\ MayRefuse
            \/ errKind = "exhausted" /\ trial = mt /\ ~Satisfies(r, cand)
GenerousRecipeNeverRefused == (pc = "err" /\ errKind = "failrate") => ~(CodeCount * 1000 >= 110 * Denominator) \/ CodeCount = 0
\* C02: a rejected candidate is discarded entirely (everything is redrawn)
RejectDiscardsCandidate == [][pc = "preflight" /\ pc' = "drawing" => cand' = <<>>]_vars
RecipeNeverWritten == [][r' = r /\ mt' = mt]_vars      \* C15: value receiver, fields untouched
\* C09: after a failing read nothing more happens - in particular nothing is returned
PanicIsTerminal == [][pc = "panic" => pc' = "panic"]_vars
Terminates == <>(pc \in {"done", "err", "panic"})

Tuples == [1..r.len -> 0..(A-1)]
StringOf(t) == [p \in 1..r.len |-> Alpha[t[p]+1]]
\* ---- refinement: Generate implements "pick any string the recipe allows, or refuse" ----
\* The abstract specification has one step: from "pending" to ok(s) with s a valid string, to an error of a documented
\* kind, or to panic (source failure).  CharGen's behaviours, projected by Outcome, are behaviours of it.
Outcome == CASE pc = "done" -> <<"ok", out>> [] pc = "err" -> <<"err", errKind>> [] pc = "panic" -> <<"panic">> [] OTHER -> <<"pending">>
AbstractStep == /\ Outcome = <<"pending">>
                /\ \/ Outcome' = <<"pending">>
                   \/ Outcome'[1] = "ok" /\ r.len >= 1 /\ Outcome'[2] \in ValidStrings(r)
                   \/ Outcome'[1] = "err" /\ Outcome'[2] \in {"length", "nochars", "failrate", "exhausted"}
                   \/ Outcome' = <<"panic">>
RefinesPickValidString == [][AbstractStep \/ Outcome' = Outcome]_vars
\* and every valid string is a possible outcome (nothing is unreachable): checked as a reachability count in the runner's
\* choice trees and here as: from the state after the preflight every valid string has an accepting continuation
EveryValidStringReachable ==
  (pc = "drawing" /\ cand = <<>> /\ trial = 1) => \A s \in ValidStrings(r) : \E t \in Tuples : StringOf(t) = s

\* C06 with retries, as a counting statement over ALL index paths of up to mt attempts: every valid string has the same
\* number of accepting paths, and that common mass never exceeds 1 / count (the reported entropy is log2 count), also when
\* the attempt budget can run out (mass is then lost to "exhausted", never shifted onto a password)
RECURSIVE GeomSum(_,_,_,_)
\* sum over t = 1..T of  R^(t-1) * D^(T-t)   (paths accepting a fixed valid string at attempt t, over the common denominator D^T)
GeomSum(R, Dn, T, t) == IF t > T THEN 0 ELSE IPow(R, t-1) * IPow(Dn, T - t) + GeomSum(R, Dn, T, t+1)
RetryNeverFavoursNorOverstates ==
  (pc = "built" /\ A > 0 /\ r.len >= 1 /\ CountValidInt(r) > 0 /\ IPow(A, r.len * mt) < 1000000) =>
     LET Dn == IPow(A, r.len)
         cnt == CountValidInt(r)
         perString == GeomSum(Dn - cnt, Dn, mt, 1)            \* identical for every valid string: retrying favours nothing
     IN  /\ perString * cnt <= IPow(Dn, mt)                    \* P(s) = perString / D^T <= 1 / cnt = 2^-Entropy
         /\ perString * cnt + IPow(Dn - cnt, mt) = IPow(Dn, mt) \* successes + "all attempts failed" = everything

\* C02 as a counting statement over the complete cell of index tuples of ONE attempt: every valid
\* string is produced by exactly one tuple, every tuple produces a string over the alphabet.
OneTuplePerString ==
  (pc = "built" /\ A > 0 /\ r.len >= 1) =>
     /\ \A s \in ValidStrings(r) : Cardinality({t \in Tuples : StringOf(t) = s}) = 1
     /\ Cardinality({t \in Tuples : Satisfies(r, StringOf(t))}) = CountValidInt(r)
     /\ Cardinality(ValidStrings(r)) = CountValidInt(r)
\* hence after k rejected attempts every valid string has been reachable by exactly R^k * 1 paths
\* (R = number of rejected tuples, the same for every target): retrying favours nothing.
=============================================================================
