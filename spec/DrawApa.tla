------------------------------- MODULE DrawApa -------------------------------
(***************************************************************************)
(* Draw.tla's machine at the REAL width (W = 32) for Apalache: the same    *)
(* actions, symbolic bound and symbolic raw words; bounded to the first    *)
(* few steps of a draw (begin, up to two rejected words, accept / fail).   *)
(* Checked: the result is in [0,n), a result exists only after an accepted *)
(* word, a power-of-two bound never rejects, rejected words are exactly    *)
(* those >= Threshold(n), and the accepted word maps to word mod n.        *)
(* apalache-mc check --inv=Inv --length=4 DrawApa.tla                      *)
(***************************************************************************)
EXTENDS Integers
VARIABLES
  \* @type: Str;
  st,
  \* @type: Int;
  dn,
  \* @type: Int;
  rejects,
  \* @type: Int;
  res,
  \* @type: Int;
  lastWord,
  \* @type: Bool;
  lastAccepted
M == 4294967296
Pow2 == {1, 2, 4, 8, 16, 32, 64, 128, 256, 512, 1024, 2048, 4096, 8192, 16384, 32768, 65536,
         131072, 262144, 524288, 1048576, 2097152, 4194304, 8388608, 16777216, 33554432,
         67108864, 134217728, 268435456, 536870912, 1073741824, 2147483648}
Threshold(n) == IF n \in Pow2 THEN M ELSE (M-1) - ((M-1) % n)
Init == st = "idle" /\ dn = 0 /\ rejects = 0 /\ res = -1 /\ lastWord = 0 /\ lastAccepted = FALSE
BeginDraw == /\ st = "idle"
             /\ \E n \in 1..(M-1) : dn' = n
             /\ st' = "drawing" /\ UNCHANGED <<rejects, res, lastWord, lastAccepted>>
ReadWord == /\ st = "drawing"
            /\ \E v \in 0..(M-1) :
                 /\ lastWord' = v
                 /\ IF v < Threshold(dn)
                    THEN st' = "done" /\ res' = v % dn /\ lastAccepted' = TRUE /\ UNCHANGED rejects
                    ELSE st' = "drawing" /\ rejects' = rejects + 1 /\ lastAccepted' = FALSE /\ UNCHANGED res
            /\ UNCHANGED dn
ReadFail == /\ st = "drawing" /\ st' = "panic" /\ UNCHANGED <<dn, rejects, res, lastWord, lastAccepted>>
Next == BeginDraw \/ ReadWord \/ ReadFail
Inv == /\ (st = "done" => res >= 0 /\ res < dn /\ lastAccepted /\ res = lastWord % dn /\ lastWord < Threshold(dn))
       /\ (st # "done" => res = -1)
       /\ (rejects > 0 => dn \notin Pow2)
       /\ (st = "drawing" /\ rejects > 0 => lastWord >= Threshold(dn) /\ ~lastAccepted)
       /\ (st \in {"drawing", "done", "panic"} => dn >= 1 /\ dn < M)
\* the same facts as an INDUCTIVE invariant, so that they hold after any number of rejected words:
\*   apalache-mc check --init=Init    --inv=IndInv --length=0     (Init => IndInv)
\*   apalache-mc check --init=IndInv  --inv=IndInv --length=1     (IndInv /\ Next => IndInv')
TypeOK == /\ st \in {"idle", "drawing", "done", "panic"}
          /\ dn \in 0..(M-1) /\ rejects \in Nat /\ res \in (-1)..(M-1) /\ lastWord \in 0..(M-1) /\ lastAccepted \in BOOLEAN
IndInv == /\ TypeOK /\ Inv
          /\ (st = "idle" => dn = 0 /\ rejects = 0 /\ ~lastAccepted)
          /\ (st = "drawing" => ~lastAccepted)
          /\ (st = "panic" => ~lastAccepted /\ (rejects > 0 => lastWord >= Threshold(dn)))
=============================================================================
