------------------------------ MODULE MC_CharGen ------------------------------
(* Exhaustive universe for CharGen: custom sets over 3 abstract characters,    *)
(* 0..2 required sets with every overlap pattern (equal, nested, crossing,     *)
(* disjoint, emptied by exclusion), one digit-class recipe, lengths 0..MaxLen. *)
EXTENDS CharGen
CONSTANTS MaxLen
U == {1000, 1001, 1002}
SeqOf(S) == SortedSeq(S)
Subsets == SUBSET U
Custom == { [len |-> L, allow |-> 0, require |-> 0, exclude |-> 0,
             allowChars |-> SeqOf(a), excludeChars |-> SeqOf(x), requireSets |-> rs]
            : L \in 0..MaxLen, a \in Subsets, x \in {{}, {1000}, {1001, 1002}},
              rs \in {<<>>} \cup {<<SeqOf(s)>> : s \in Subsets \ {{}}}
                     \cup {<<SeqOf(s), SeqOf(t)>> : s \in {{1000}, {1000, 1001}}, t \in Subsets \ {{}}} }
Dup == { [len |-> 2, allow |-> 0, require |-> 0, exclude |-> 0,
          allowChars |-> <<1000, 1001, 1000, 1000>>, excludeChars |-> <<>>, requireSets |-> <<<<1001, 1001>>>>] }
WithClass == { [len |-> L, allow |-> Digits, require |-> q, exclude |-> Ambiguous,
                allowChars |-> <<48, 49>>, excludeChars |-> <<>>, requireSets |-> rs]
               : L \in {1, 2}, q \in {0, Digits}, rs \in {<<>>, <<<<50, 51>>>>} }
MCRecipes == Custom \cup Dup \cup WithClass
=============================================================================
