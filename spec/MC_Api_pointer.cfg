CONSTANTS
  Objects = {o1, o2}
  Goroutines = {g1, g2}
  Values = {v1, v2}
  MaxCalls = 2
  MaxSets = 0
  PointerReceiver = TRUE
  CacheDerived = FALSE
  GlobalLock = FALSE
SPECIFICATION Spec
INVARIANTS NoConflictingAccess
PROPERTIES CallsLeaveFieldsUnchanged
CHECK_DEADLOCK FALSE
