CONSTANTS
  Title <- MCTitle
  Recipes <- MCRecipes
  MaxLen = 2
SPECIFICATION Spec
INVARIANTS TypeOK OutStructure CapsShape ErrIff EntropyComputedOnce DrawBudget UniformWhenCapitalisable MinEntropyHolds
PROPERTIES RefinesPickPassword PanicIsTerminal RecipeNeverWritten Terminates
CHECK_DEADLOCK FALSE
