CONSTANTS
  Objects = {o1, o2}
  Goroutines = {g1}
  Values = {v1, v2, v3}
  MaxCalls = 4
  MaxSets = 3
  PointerReceiver = FALSE
  CacheDerived = FALSE
  GlobalLock = TRUE
SPECIFICATION Spec
INVARIANTS NoCallBlocked
PROPERTIES CallsLeaveFieldsUnchanged
CHECK_DEADLOCK FALSE
