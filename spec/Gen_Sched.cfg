CONSTANTS
  W = 2
  D = 4
SPECIFICATION Spec
CHECK_DEADLOCK FALSE
