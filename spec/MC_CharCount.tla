------------------------------ MODULE MC_CharCount ------------------------------
(* The counting formula against its definition: for every recipe of the small   *)
(* universe, inclusion-exclusion over the live required sets (native and BigNat) *)
(* equals the brute-force number of valid strings; the modular fingerprint       *)
(* agrees with the count.  Every overlap pattern of up to 3 required sets.       *)
EXTENDS CharCount, TLC
CONSTANTS MaxLen
U == {2000, 2001, 2002}
NonEmpty == (SUBSET U) \ {{}}
VARIABLES a, x, rs, L
vars == <<a, x, rs, L>>
ReqChoices == {<<>>} \cup {<<SortedSeq(s)>> : s \in NonEmpty}
              \cup {<<SortedSeq(s), SortedSeq(t)>> : s \in NonEmpty, t \in NonEmpty}
              \cup {<<SortedSeq(s), SortedSeq(t), SortedSeq(u)>> : s \in {{2000}, {2000, 2001}}, t \in NonEmpty, u \in {{2001}, {2000, 2002}, U}}
Init == a \in SUBSET U /\ x = {} /\ rs = <<>> /\ L = 0
Next == /\ L = 0 /\ a' = a
        /\ x' \in {{}, {2000}, {2001, 2002}} /\ rs' \in ReqChoices /\ L' \in 1..MaxLen
Spec == Init /\ [][Next]_vars
R == [len |-> L, allow |-> 0, require |-> 0, exclude |-> 0, allowChars |-> SortedSeq(a),
      excludeChars |-> SortedSeq(x), requireSets |-> rs]
CountIsCardinality ==
  L = 0 \/
  /\ CountValidInt(R) = Cardinality(ValidStrings(R))
  /\ ToInt(CountValidBig(R)) = CountValidInt(R)
  /\ IsBig(CountValidBig(R))
  /\ \A p \in {7, 32749} : CountModP(R, p) = CountValidInt(R) % p
  /\ Le(NegSum(R), PosSum(R))
=============================================================================
