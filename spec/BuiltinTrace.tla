----------------------------- MODULE BuiltinTrace -----------------------------
(***************************************************************************)
(* C16: the documented built-ins, as constants of the specification, held  *)
(* against what the REAL library exports:                                  *)
(*   class    Alphabet() of CharRecipe{Length:1, Allow:f} for every f      *)
(*   consts   numeric values of the exported flags, token types, schemes   *)
(*   newchar / newwl   constructor defaults                                *)
(*   globals  MaxTrials, MaxFailRate                                       *)
(*   preset   exact distribution of every separator preset (complete tree) *)
(*   chunk / listend   embedded word lists next to their data files        *)
(***************************************************************************)
EXTENDS TraceIO, CharCount

VARIABLES l, bad, done, stats, seenWords, listOK
vars == <<l, bad, done, stats, seenWords, listOK>>

\* the presets as documented: what each name says
PresetRecipe(name) ==
  LET base == [len |-> 1, allow |-> 0, require |-> 0, exclude |-> 0, allowChars |-> <<>>, excludeChars |-> <<>>, requireSets |-> <<>>]
  IN CASE name = "SFDigits1" -> [base EXCEPT !.allow = Digits]
       [] name = "SFDigits2" -> [base EXCEPT !.allow = Digits, !.len = 2]
       [] name = "SFDigitsNoAmbiguous1" -> [base EXCEPT !.allow = Digits, !.exclude = Ambiguous]
       [] name = "SFDigitsNoAmbiguous2" -> [base EXCEPT !.allow = Digits, !.exclude = Ambiguous, !.len = 2]
       [] name = "SFSymbols" -> [base EXCEPT !.allow = Symbols]
       [] name = "SFDigitsSymbols" -> [base EXCEPT !.allow = 12]
PresetValues(name) == IF name = "SFNone" THEN {<<>>} ELSE ValidStrings(PresetRecipe(name))

DefaultChar(k) == [len |-> k, allow |-> 15, require |-> 0, exclude |-> Ambiguous, allowChars |-> <<>>, excludeChars |-> <<>>, requireSets |-> <<>>]

\* MaxFailRate = 1e-9 as the nearest float64: | m*2^e * 10^9 - 1 | <= 2^-50
IsOneBillionth(f) ==
  /\ f.k = "fin" /\ f.neg = 0 /\ f.e < 0
  /\ LET lhs == Mul(f.m, FromInt(1000000000))
         rhs == Shl(One, -f.e)
         diff == IF Le(lhs, rhs) THEN Sub(rhs, lhs) ELSE Sub(lhs, rhs)
     IN Le(Shl(diff, 50), rhs)

Whys(e) ==
  CASE e.op = "consts" ->
         <<IF <<e.Uppers, e.Lowers, e.Digits, e.Symbols, e.Ambiguous, e.None, e.Letters, e.All>> = <<Uppers, Lowers, Digits, Symbols, Ambiguous, 0, Letters, AllClasses>>
             THEN "ok" ELSE "P:C16:exported-class-flags-or-named-combinations-differ-from-the-documentation",
           IF e.SeparatorType = 0 /\ e.AtomType = 1 THEN "ok" ELSE "S:token-type-values-changed",
           IF <<e.CSNone, e.CSFirst, e.CSAll, e.CSRandom, e.CSOne>> = <<"none", "first", "all", "random", "one">> THEN "ok" ELSE "S:scheme-names-changed">>
    [] e.op = "class" ->
         <<IF e.alpha = SortedSeq(FlagChars(e.flag)) THEN "ok" ELSE "P:C16:built-in-character-class-differs-from-the-documented-one">>
    [] e.op = "newchar" ->
         <<IF e.fields = DefaultChar(e.k) THEN "ok" ELSE "P:C16:NewCharRecipe-defaults-are-not-everything-allowed-minus-ambiguous",
           IF e.alpha = SortedSeq(Alphabet(DefaultChar(e.k))) THEN "ok" ELSE "P:C16:default-character-recipe-alphabet-differs">>
    [] e.op = "newcharreq" ->    \* the constructor's recipe with the classes e.require required: same alphabet, passwords inside it
         LET r == [DefaultChar(e.k) EXCEPT !.require = e.require]
             al == Alphabet(r)
         IN <<IF e.fields = r THEN "ok" ELSE "P:C16:NewCharRecipe-defaults-are-not-everything-allowed-minus-ambiguous",
              IF e.alpha = SortedSeq(al) /\ al = FlagChars(15) \ FlagChars(Ambiguous) THEN "ok" ELSE "P:C16:default-character-recipe-alphabet-differs",
              IF \A i \in DOMAIN e.pws : \A j \in DOMAIN e.pws[i] : e.pws[i][j] \in al THEN "ok"
                ELSE "P:C16:default-character-recipe-returned-an-ambiguous-or-foreign-character">>
    [] e.op = "classex" ->
         <<IF e.alpha = SortedSeq(FlagChars(15) \ FlagChars(e.flag)) THEN "ok" ELSE "P:C16:built-in-character-class-differs-from-the-documented-one">>
    [] e.op = "newwlafter" ->     \* the constructor's recipe on a shipped list that capitalising recipes have used before
         <<IF e.cap = "none" /\ e.sepChar = <<>> /\ e.sepFuncNil = 1 /\ e.foreign = 0 /\ e.seps = 0 /\ e.atoms = 1200 THEN "ok"
           ELSE "P:C16:NewWLRecipe-defaults-are-not-no-capitalisation-and-no-separator">>
    [] e.op = "newwl" ->
         <<IF e.len = e.k /\ e.cap = "none" /\ e.sepChar = <<>> /\ e.sepFuncNil = 1 /\ e.size = 3 THEN "ok"
           ELSE "P:C16:NewWLRecipe-defaults-are-not-no-capitalisation-and-no-separator">>
    [] e.op = "globals" ->
         <<IF e.maxTrials = 200 THEN "ok" ELSE "P:C16:retry-budget-default-is-not-200",
           IF IsOneBillionth(e.maxFailRate) THEN "ok" ELSE "P:C16:tolerated-failure-probability-default-is-not-1e-9">>
    [] e.op = "budget" ->   \* all-attempts-fail stream (okAt = 0), or the okAt-th attempt is the first to succeed
         <<IF e.okAt = 0 /\ ~(e.kind = "err" /\ e.draws = 200 * e.len) THEN "P:C16:retry-budget-default-is-not-200-attempts" ELSE "ok",
           IF e.okAt \in 1..200 /\ ~(e.kind = "ok" /\ e.draws = e.okAt * e.len) THEN "P:C16:retry-budget-default-is-not-200-attempts" ELSE "ok",
           IF e.okAt > 200 /\ e.kind # "err" THEN "P:C16:retry-budget-default-is-not-200-attempts" ELSE "ok">>
    [] e.op = "tolerance" ->    \* defaults 200 / 1e-9: (1-p)^200 <= 1e-9 iff the exact single-attempt success fraction p >= 0.0984468...
         \* The library evaluates the rule in floating point, so the specification states it as a band: in general refuse when
         \* p <= 0.085, never when p >= 0.11; for recipes of length <= 2 (entropies of a few bits, float32 error < 2e-6 relative)
         \* the band is 0.09838 (failure probability 1.011e-9) .. 0.09851 (0.982e-9)
         LET r == e.char
             A == Cardinality(Alphabet(r))
             num == CountValidBig(r)
             den == Pow(FromInt(A), r.len)
             lo == IF r.len <= 2 THEN 9838 ELSE 8500
             hi == IF r.len <= 2 THEN 9851 ELSE 11000
         IN <<IF Le(Mul(num, FromInt(100000)), Mul(den, FromInt(lo))) /\ ~(e.kind = "err" /\ e.draws = 0)
                THEN "P:C16:a-recipe-beyond-the-tolerated-failure-probability-of-1e-9-was-not-refused-up-front" ELSE "ok",
              IF ~Lt(Mul(num, FromInt(100000)), Mul(den, FromInt(hi))) /\ e.kind = "err" /\ e.draws = 0
                THEN "P:C16:a-recipe-within-the-tolerated-failure-probability-was-refused" ELSE "ok">>
    [] e.op = "preset" ->
         LET want == PresetValues(e.name)
             got == {e.vals[i].v : i \in DOMAIN e.vals}
             ws == {e.vals[i].w : i \in DOMAIN e.vals}
             cnt == FromInt(Cardinality(want))
         IN IF e.misaligned = 1
            THEN <<"S:preset-reads-cannot-be-attributed-to-its-draws-no-exact-distribution",
                   IF got \subseteq want THEN "ok" ELSE "P:C16:separator-preset-does-not-yield-exactly-what-its-name-says">> ELSE
            <<IF e.complete = 1 THEN "ok" ELSE "H:preset-tree-not-complete",
              IF got = want /\ Len(e.vals) = Cardinality(want) THEN "ok" ELSE "P:C16:separator-preset-does-not-yield-exactly-what-its-name-says",
              IF Cardinality(ws) = 1 THEN "ok" ELSE "P:C16:separator-preset-is-not-uniform",
              IF \A i \in DOMAIN e.vals : Len(e.vals[i].ents) = 1 /\ EntropyIsLog2(e.vals[i].ents[1], cnt, 2) THEN "ok"
              ELSE "P:C16:separator-preset-entropy-is-not-log2-of-the-number-of-its-values">>
    [] e.op = "chunk" ->
         <<IF e.emb = e.file THEN "ok" ELSE "P:C16:shipped-list-differs-from-its-source-data-file",
           IF e.emb = e.lower THEN "ok" ELSE "P:C16:shipped-list-entry-is-not-lower-case",
           IF \A i \in DOMAIN e.emb : e.emb[i] # <<>> THEN "ok" ELSE "P:C16:shipped-list-contains-an-empty-entry">>
    [] e.op = "listend" ->
         <<IF e.n = e.fileLines THEN "ok" ELSE "P:C16:shipped-list-length-differs-from-its-source-data-file",
           IF Cardinality(seenWords) = e.n THEN "ok" ELSE "P:C16:shipped-list-contains-duplicates">>
    [] OTHER -> <<"H:unknown-op">>

RECURSIVE BadOf(_,_,_)
BadOf(line, ws, i) == IF i > Len(ws) THEN <<>>
                      ELSE (IF ws[i] = "ok" THEN <<>> ELSE <<Bad(line, ws[i])>>) \o BadOf(line, ws, i+1)
Init == l = 1 /\ bad = <<>> /\ done = FALSE /\ stats = [events |-> 0, words |-> 0] /\ seenWords = {} /\ listOK = TRUE
Step == /\ l <= NLines
        /\ LET e == Trace[l] IN
             /\ bad' = bad \o BadOf(l, Whys(e), 1)
             /\ seenWords' = IF e.op = "chunk" THEN seenWords \cup {e.emb[i] : i \in DOMAIN e.emb} ELSE IF e.op = "listend" THEN {} ELSE seenWords
             /\ stats' = [events |-> stats.events + 1, words |-> stats.words + (IF e.op = "chunk" THEN Len(e.emb) ELSE 0)]
        /\ l' = l + 1 /\ UNCHANGED <<done, listOK>>
Finish == /\ l = NLines + 1 /\ ~done /\ WriteResult(bad, stats) /\ done' = TRUE /\ UNCHANGED <<l, bad, stats, seenWords, listOK>>
Next == Step \/ Finish
Spec == Init /\ [][Next]_vars
=============================================================================
