CONSTANTS
  MaxSteps = 3
SPECIFICATION Spec
CHECK_DEADLOCK FALSE
