CONSTANTS
  SecretChars = {945, 946, 947}
  MaxEvents = 3
SPECIFICATION Spec
INVARIANTS NoSecretEmitted OnlyKnownDiagnostics
PROPERTIES SecretsLeaveOnlyByReturn
CHECK_DEADLOCK FALSE
