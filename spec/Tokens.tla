------------------------------- MODULE Tokens -------------------------------
(***************************************************************************)
(* Tokens, the compact token index, and Tokenize (token.go, password.go).  *)
(* A token is [v |-> Seq(Char), t |-> type byte]; 0 = separator, 1 = atom. *)
(* Lengths are counted in characters.  Limit is the largest encodable      *)
(* token length (255 in the code; small in exhaustive models).             *)
(***************************************************************************)
EXTENDS Integers, Sequences, FiniteSets

CONSTANT Limit

SepT == 0
AtomT == 1
CharacterKind == 0
VarAtomsKind == 1
AlternatingKind == 2
FullKind == 3

Types(ts) == {ts[i].t : i \in DOMAIN ts}
AllAtoms(ts) == Types(ts) = {AtomT}                      \* false for no tokens
MaxTokLen(ts) == IF ts = <<>> THEN 0 ELSE CHOOSE m \in {Len(ts[i].v) : i \in DOMAIN ts} : \A i \in DOMAIN ts : Len(ts[i].v) <= m
Alternating(ts) == /\ Len(ts) % 2 = 1
                   /\ Types(ts) = {SepT, AtomT}
                   /\ \A i \in DOMAIN ts : ts[i].t = (IF i % 2 = 1 THEN AtomT ELSE SepT)

\* Tokens.Kind()
Kind(ts) == IF AllAtoms(ts) /\ MaxTokLen(ts) = 1 THEN CharacterKind
            ELSE IF AllAtoms(ts) THEN VarAtomsKind
            ELSE IF Alternating(ts) THEN AlternatingKind
            ELSE FullKind

RECURSIVE Flatten(_)
Flatten(ss) == IF ss = <<>> THEN <<>> ELSE Head(ss) \o Flatten(Tail(ss))
StringOf(ts) == Flatten([i \in DOMAIN ts |-> ts[i].v])         \* Password.String()
AtomsOf(ts) == [i \in DOMAIN SelectSeq(ts, LAMBDA t : t.t = AtomT) |-> SelectSeq(ts, LAMBDA t : t.t = AtomT)[i].v]
SepsOf(ts)  == [i \in DOMAIN SelectSeq(ts, LAMBDA t : t.t = SepT) |-> SelectSeq(ts, LAMBDA t : t.t = SepT)[i].v]

\* Tokens.MakeIndices(): [kind |-> "nil"] for no tokens, "err" when a token cannot be encoded, else the index bytes
MakeIdx(ts) ==
  IF ts = <<>> THEN [kind |-> "nil", idx |-> <<>>]
  ELSE LET k == Kind(ts) IN
       IF k = CharacterKind THEN [kind |-> "ok", idx |-> <<CharacterKind>>]
       ELSE IF \E i \in DOMAIN ts : Len(ts[i].v) > Limit THEN [kind |-> "err", idx |-> <<>>]
       ELSE IF k \in {VarAtomsKind, AlternatingKind}
            THEN [kind |-> "ok", idx |-> <<k>> \o [i \in DOMAIN ts |-> Len(ts[i].v)]]
            ELSE [kind |-> "ok", idx |-> <<FullKind>> \o Flatten([i \in DOMAIN ts |-> <<Len(ts[i].v), ts[i].t>>])]

\* Tokenize(): chars is the password as a sequence of characters, idx the index bytes
RECURSIVE Slice(_,_,_,_)
\* lens: remaining token lengths; typeOf(i): type of the i-th token
Slice(chars, lens, pos, out) ==
  IF lens = <<>> THEN [kind |-> "ok", toks |-> out]
  ELSE LET n == Head(lens)[1]
           t == Head(lens)[2]
       IN IF pos + n > Len(chars) THEN [kind |-> "err", toks |-> <<>>]
          ELSE Slice(chars, Tail(lens), pos + n, Append(out, [v |-> SubSeq(chars, pos + 1, pos + n), t |-> t]))
Tok(chars, idx) ==
  IF idx = <<>> THEN [kind |-> "err", toks |-> <<>>]                                   \* empty index
  ELSE LET k == idx[1]
           body == Tail(idx)
       IN CASE k = CharacterKind -> [kind |-> "ok", toks |-> [i \in DOMAIN chars |-> [v |-> <<chars[i]>>, t |-> AtomT]]]
            [] k = VarAtomsKind -> Slice(chars, [i \in DOMAIN body |-> <<body[i], AtomT>>], 0, <<>>)
            [] k = AlternatingKind -> Slice(chars, [i \in DOMAIN body |-> <<body[i], IF i % 2 = 1 THEN AtomT ELSE SepT>>], 0, <<>>)
            [] k = FullKind -> IF Len(body) % 2 = 1 THEN [kind |-> "err", toks |-> <<>>]          \* truncated (length, type) pair
                               ELSE Slice(chars, [i \in 1..(Len(body) \div 2) |-> <<body[2*i - 1], body[2*i]>>], 0, <<>>)
            [] OTHER -> [kind |-> "err", toks |-> <<>>]                                  \* unknown kind byte

\* ---- properties of the pair (C11, C12) ----
Encodable(ts) == ts # <<>> /\ \A i \in DOMAIN ts : Len(ts[i].v) \in 1..Limit
RoundTrip(ts) == Encodable(ts) =>
                   /\ MakeIdx(ts).kind = "ok"
                   /\ Tok(StringOf(ts), MakeIdx(ts).idx) = [kind |-> "ok", toks |-> ts]
DocumentedSize(ts) == Encodable(ts) =>
   LET n == Len(ts)
       ix == MakeIdx(ts).idx
   IN IF AllAtoms(ts) /\ \A i \in DOMAIN ts : Len(ts[i].v) = 1 THEN Len(ix) = 1
      ELSE IF AllAtoms(ts) \/ Alternating(ts) THEN Len(ix) = n + 1
      ELSE Len(ix) = 2*n + 1
NeverLossy(ts) == (ts # <<>> /\ \E i \in DOMAIN ts : Len(ts[i].v) > Limit /\ Kind(ts) # CharacterKind) => MakeIdx(ts).kind = "err"

\* consecutive slices with exactly the character counts the index specifies
ConsecutiveSlices(chars, toks) == /\ Len(StringOf(toks)) <= Len(chars)          \* (first: SubSeq beyond the string is an evaluation error)
                                  /\ StringOf(toks) = SubSeq(chars, 1, Len(StringOf(toks)))
TotalOK(chars, idx) ==
  LET r == Tok(chars, idx) IN
  /\ r.kind \in {"ok", "err"}
  /\ (r.kind = "ok" => ConsecutiveSlices(chars, r.toks))
  /\ (idx = <<>> => r.kind = "err")
  /\ (idx # <<>> /\ idx[1] \notin 0..3 => r.kind = "err")
  /\ (idx # <<>> /\ idx[1] = FullKind /\ Len(idx) % 2 = 0 => r.kind = "err")
  /\ (idx # <<>> /\ idx[1] \in {VarAtomsKind, AlternatingKind} /\ r.kind = "ok" =>
        Len(r.toks) = Len(idx) - 1 /\ \A i \in DOMAIN r.toks : Len(r.toks[i].v) = idx[i+1])
  /\ (idx # <<>> /\ idx[1] = FullKind /\ r.kind = "ok" =>
        Len(r.toks) = (Len(idx) - 1) \div 2 /\ \A i \in DOMAIN r.toks : Len(r.toks[i].v) = idx[2*i] /\ r.toks[i].t = idx[2*i+1])
  /\ (idx # <<>> /\ idx[1] = CharacterKind => r.kind = "ok" /\ Len(r.toks) = Len(chars))
=============================================================================
