--------------------------------- MODULE Cli ---------------------------------
(***************************************************************************)
(* The opgen command line (cmd/opgen/opgen.go) as a function from the      *)
(* argument vector to the library recipe it describes, the permitted exit  *)
(* statuses and the shape of standard output (C17).                        *)
(*                                                                         *)
(* An argument vector is [sub, flags] where sub is the subcommand as text  *)
(* ("" when absent) and flags is a sequence of [name, val, has]: the flag  *)
(* name without dashes, its value as code points, and whether a value was  *)
(* given (Go's flag syntax itself - dashes, '=' - is the standard          *)
(* library's business and is resolved by the harness).                     *)
(***************************************************************************)
EXTENDS Integers, Sequences, FiniteSets, CharSets

Txt(s) == s     \* text constants are written as code point tuples below
UPPERCASE == <<117,112,112,101,114,99,97,115,101>>
LOWERCASE == <<108,111,119,101,114,99,97,115,101>>
DIGITSW   == <<100,105,103,105,116,115>>
SYMBOLSW  == <<115,121,109,98,111,108,115>>
AMBIGUOUSW == <<97,109,98,105,103,117,111,117,115>>

ClassOfWord(w) == CASE w = UPPERCASE -> Uppers [] w = LOWERCASE -> Lowers [] w = DIGITSW -> Digits
                    [] w = SYMBOLSW -> Symbols [] w = AMBIGUOUSW -> Ambiguous [] OTHER -> 0

\* strings.Replace(value, " ", "", -1) then strings.Split(..., ",")
NoBlanks(s) == SelectSeq(s, LAMBDA c : c # 32)
RECURSIVE SplitComma(_,_)
SplitComma(s, cur) == IF s = <<>> THEN <<cur>>
                      ELSE IF Head(s) = 44 THEN <<cur>> \o SplitComma(Tail(s), <<>>)
                      ELSE SplitComma(Tail(s), Append(cur, Head(s)))
RECURSIVE OrFlags(_)
OrFlags(ws) == IF ws = <<>> THEN {} ELSE (IF ClassOfWord(Head(ws)) = 0 THEN {} ELSE {ClassOfWord(Head(ws))}) \cup OrFlags(Tail(ws))
SumFlags(S) == (IF Uppers \in S THEN Uppers ELSE 0) + (IF Lowers \in S THEN Lowers ELSE 0) + (IF Digits \in S THEN Digits ELSE 0)
               + (IF Symbols \in S THEN Symbols ELSE 0) + (IF Ambiguous \in S THEN Ambiguous ELSE 0)
\* parseCharacterClasses(value, defaults): an empty value means the defaults; unknown class names are ignored
ParseClasses(val, default) == IF val = <<>> THEN default ELSE SumFlags(OrFlags(SplitComma(NoBlanks(val), <<>>)))

KnownCharFlags == {"length", "allow", "require", "exclude", "entropy"}
KnownWordFlags == {"size", "list", "file", "separator", "capitalize", "entropy"}

\* last occurrence wins (Go's flag package assigns in order)
Has(flags, name) == \E i \in DOMAIN flags : flags[i].name = name
LastVal(flags, name, default) ==
  IF ~Has(flags, name) THEN default
  ELSE flags[CHOOSE i \in DOMAIN flags : flags[i].name = name /\ \A j \in DOMAIN flags : flags[j].name = name => j <= i].val

\* decimal integers as Go's flag package accepts them (subset: optional sign, digits)
IsDigits(s) == s # <<>> /\ \A i \in DOMAIN s : s[i] \in 48..57
IsInt(s) == IsDigits(s) \/ (Len(s) >= 2 /\ s[1] \in {43, 45} /\ IsDigits(Tail(s)))
RECURSIVE DigitsVal(_,_)
DigitsVal(s, acc) == IF s = <<>> THEN acc ELSE DigitsVal(Tail(s), IF acc > 100000 THEN acc ELSE acc * 10 + (Head(s) - 48))
IntVal(s) == IF s[1] = 45 THEN -DigitsVal(Tail(s), 0) ELSE IF s[1] = 43 THEN DigitsVal(Tail(s), 0) ELSE DigitsVal(s, 0)

\* ---- usage errors (exit status 2) ----
UsageError(a) ==
  \/ a.sub \notin {"characters", "words"}
  \/ a.sub = "characters" /\ (\E i \in DOMAIN a.flags : a.flags[i].name \notin KnownCharFlags)
  \/ a.sub = "words" /\ (\E i \in DOMAIN a.flags : a.flags[i].name \notin KnownWordFlags)
  \/ \E i \in DOMAIN a.flags : a.flags[i].name \in {"length", "size"} /\ ~IsInt(a.flags[i].val)
  \/ \E i \in DOMAIN a.flags : a.flags[i].name \in {"allow", "require", "exclude", "list", "file", "separator", "capitalize"} /\ a.flags[i].has = 0
WORDS == <<119,111,114,100,115>>
SYLLABLES == <<115,121,108,108,97,98,108,101,115>>
UnknownList(a) == a.sub = "words" /\ LastVal(a.flags, "file", <<>>) = <<>> /\ LastVal(a.flags, "list", WORDS) \notin {WORDS, SYLLABLES}

WantsEntropy(a) == Has(a.flags, "entropy")

\* ---- the recipe a characters command describes ----
CharRecipeOf(a) ==
  [len |-> IntVal(LastVal(a.flags, "length", <<50, 48>>)),
   allow |-> ParseClasses(LastVal(a.flags, "allow", <<>>), 15),
   require |-> ParseClasses(LastVal(a.flags, "require", <<>>), 0),
   exclude |-> ParseClasses(LastVal(a.flags, "exclude", <<>>), Ambiguous),
   allowChars |-> <<>>, excludeChars |-> <<>>, requireSets |-> <<>>]

\* ---- the recipe a words command describes (list contents come from the environment) ----
SepName(a) == LastVal(a.flags, "separator", <<104,121,112,104,101,110>>)
\* kind: "const" with a character, "digit", or "empty" (none, or an unknown name: no separator function and an empty SeparatorChar)
SepOf(a) == LET n == SepName(a) IN
  CASE n = <<104,121,112,104,101,110>> -> [kind |-> "const", ch |-> 45]
    [] n = <<115,112,97,99,101>> -> [kind |-> "const", ch |-> 32]
    [] n = <<99,111,109,109,97>> -> [kind |-> "const", ch |-> 44]
    [] n = <<112,101,114,105,111,100>> -> [kind |-> "const", ch |-> 46]
    [] n = <<117,110,100,101,114,115,99,111,114,101>> -> [kind |-> "const", ch |-> 95]
    [] n = <<100,105,103,105,116>> -> [kind |-> "digit", ch |-> 0]
    [] OTHER -> [kind |-> "empty", ch |-> 0]
CapOf(a) == LET n == LastVal(a.flags, "capitalize", <<110,111,110,101>>) IN
  CASE n = <<102,105,114,115,116>> -> "first" [] n = <<97,108,108>> -> "all" [] n = <<114,97,110,100,111,109>> -> "random"
    [] n = <<111,110,101>> -> "one" [] OTHER -> "none"
SizeOf(a) == IntVal(LastVal(a.flags, "size", <<52>>))
=============================================================================
