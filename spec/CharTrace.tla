------------------------------ MODULE CharTrace ------------------------------
(***************************************************************************)
(* Validates executions of the REAL CharRecipe API recorded by the harness *)
(* (complete choice trees "cells", or selected paths) against CharSets /   *)
(* CharGen / CharCount.                                                    *)
(*   cell     recipe, env, Alphabet(), Entropy() x2, SuccessProbability(), *)
(*            exact count, cell denominator                                *)
(*   leaf     one real Generate run: [bound, index] of every draw, result  *)
(*   cellend  distribution statements over the complete cell               *)
(* Verdict strings:  P:<property>:<what>  contradicts a listed property,   *)
(*                   S:<what>  implementation shape drifted,  H: harness.  *)
(***************************************************************************)
EXTENDS TraceIO, CharCount

VARIABLES l, bad, cell, info, acc, failW, cutW, totW, nleaf, done, stats
vars == <<l, bad, cell, info, acc, failW, cutW, totW, nleaf, done, stats>>

NoCell == [op |-> "none"]
Tol == 1      \* ulps of the reported float32: the library rounds a float64 value once (<= 0.5 ulp); two roundings in a row reach 1.5

\* ---------------- cell ----------------
RecipeOf(c) == c.char
AlphaSeq(c) == SortedSeq(Alphabet(RecipeOf(c)))
Premise07(c) == ~HasEmptiedReq(RecipeOf(c))      \* every required set keeps a non-excluded member

LongLen == 64     \* beyond this the count is compared by modular fingerprints, not recomputed in full
CountMatches(c) ==
  LET r == RecipeOf(c) IN
  /\ c.countNeg = 0
  /\ IF r.len <= LongLen THEN c.count = CountValidBig(r)
     ELSE IsBig(c.count) /\ \A p \in FingerprintPrimes : ModSmall(c.count, p) = CountModP(r, p)
CountForLog(c) == IF RecipeOf(c).len <= LongLen THEN CountValidBig(RecipeOf(c)) ELSE c.count

\* everything about the recipe that leaves need, computed once per cell
InfoOf(c) ==
  LET r == RecipeOf(c)
      aset == Alphabet(r)
      A == Cardinality(aset)
      small == r.len >= 1 /\ r.len <= LongLen /\ A >= 1
      num == IF small THEN CountCodeBig(r) ELSE <<>>
      den == IF small THEN Pow(FromInt(A), r.len) ELSE <<>>
      emptied == HasEmptiedReq(r)
      \* the refusal rule (1-p)^200 <= 1e-9, i.e. p >= 0.0984468..., is evaluated by the library in floating point: a band on the exact
      \* fraction, tight for recipes of length <= 2 (entropies of a few bits: float32 error < 2e-6 relative), wide otherwise
      \* ... and for other attempt budgets mt (default limit 1e-9): p* = 1 - 10^(-9/mt), in units of 1e-7:
      \* <<must refuse at or below (wide), must not refuse at or above (wide), the same two, tight>>; no verdict for budgets not listed
      band == CASE c.maxTrials = 200 -> <<850000, 1100000, 983800, 985100>>
                [] c.maxTrials = 5 -> <<8497160, 10996905, 9834818, 9847810>>
                [] c.maxTrials = 50 -> <<2929572, 3791412, 3390758, 3395238>>
                [] c.maxTrials = 199 -> <<853886, 1105089, 988309, 989615>>
                [] c.maxTrials = 201 -> <<845820, 1094650, 978973, 980267>>
                [] c.maxTrials = 350 -> <<496373, 642400, 574514, 575274>>
                [] c.maxTrials = 2000 -> <<89000, 115184, 103011, 103148>>
                [] OTHER -> <<0, 0, 0, 0>>
      banded == band[1] > 0
      lo == IF r.len <= 2 THEN band[3] ELSE band[1]
      hi == IF r.len <= 2 THEN band[4] ELSE band[2]
      scaled == Mul(num, FromInt(10000000))
  IN [r |-> r, aset |-> aset, aseq |-> SortedSeq(aset), A |-> A, reqs |-> ReqSets(r), live |-> LiveReq(r),
      refAllowed |-> \/ ~small \/ num = <<>> \/ emptied
                     \/ c.failRateOne = 0 /\ banded /\ Lt(scaled, Mul(den, FromInt(hi)))
                     \/ c.failRateOne = 0 /\ ~banded,
      refRequired |-> small /\ ~emptied /\ (num = <<>> \/ (c.failRateOne = 0 /\ banded /\ Le(scaled, Mul(den, FromInt(lo)))))]

CellWhys(c) ==
  LET r == RecipeOf(c)
      A == Cardinality(Alphabet(r))
      prem == Premise07(c)
      okE == c.ent.k \notin {"panic", "nan"}
      cnt == CountForLog(c)
  IN
  <<IF c.alpha = AlphaSeq(c) THEN "ok" ELSE "P:C03:Alphabet()-is-not-the-sorted-duplicate-free-set-of-usable-characters",
    IF c.ent.k = "panic" THEN "P:C13:Entropy-or-SuccessProbability-panicked" ELSE "ok",
    IF c.ent.k = "nan" THEN "P:C07:entropy-is-NaN" ELSE "ok",
    IF c.ent.k # "panic" /\ ~SameFloat(c.ent, c.ent2) THEN "P:C07:entropy-differs-between-calls" ELSE "ok",
    \* exact count (only meaningful under the property's premise)
    IF c.ent.k # "panic" /\ prem /\ r.len >= 0 /\ ~CountMatches(c)
      THEN "P:C07:count-is-not-the-number-of-satisfying-strings" ELSE "ok",
    IF okE /\ prem /\ r.len >= 1 /\ A >= 1
      THEN LET cls == EntropyClass(c.ent, cnt, Tol) IN
           IF cls = 2 THEN "P:C07:entropy-is-not-log2-of-the-exact-count"
           ELSE IF cls = 1 THEN "P:C07:entropy-is-log2-of-the-exact-count-rounded-more-than-once(not-to-float32-precision)" ELSE "ok"
      ELSE "ok",
    \* the likeliest password has probability >= 1/(number of strings the recipe allows): Entropy() above log2 of that number overstates
    IF okE /\ prem /\ r.len >= 1 /\ A >= 1 /\ cnt # <<>> /\ ~EntropyNotAbove(c.ent, cnt, Tol)
      THEN "P:C06:Entropy()-exceeds-log2-of-the-number-of-strings-the-recipe-allows" ELSE "ok",
    IF okE /\ r.len >= 1 /\ A = 0 /\ c.ent.k # "ninf"
      THEN "P:C07:entropy-of-unsatisfiable-recipe-not-minus-infinity" ELSE "ok",
    IF c.prevChg > 0 THEN "P:C03:a-password-returned-earlier-changed-when-a-later-one-was-generated" ELSE "ok",
    IF c.prevChg > 0 THEN "P:C15:a-password-returned-earlier-changed-when-a-later-one-was-generated" ELSE "ok",
    IF c.errChg > 0 THEN "P:C15:an-error-returned-by-an-earlier-call-changed-when-a-later-call-was-made" ELSE "ok",
    IF c.mutated = 1 THEN "P:C15:call-changed-public-fields-of-a-recipe-or-a-slice-the-caller-passed-in" ELSE "ok",
    IF c.twinDiff = 1 THEN "P:C15:results-differ-from-a-fresh-recipe-with-the-same-field-values-on-the-same-bytes" ELSE "ok",
    IF c.hidden = 1 THEN "P:C14:call-wrote-derived-state-into-the-callers-recipe-value" ELSE "ok",
    \* SuccessProbability = exact fraction count / A^L  (two float32 entropies + exp2: 2^-12 relative)
    IF okE /\ prem /\ r.len >= 1 /\ r.len <= LongLen /\ A >= 1 /\ cnt # <<>>
       /\ ~(c.sp.k = "fin" /\ c.sp.neg = 0 /\ c.sp.m > 0 /\
            LET den == Pow(FromInt(A), r.len)
                e == c.sp.e
                lhs == IF e >= 0 THEN Shl(Mul(FromInt(c.sp.m), den), e) ELSE Mul(FromInt(c.sp.m), den)
                rhs == IF e >= 0 THEN cnt ELSE Shl(cnt, -e)
                RelBits == 12
                diff == IF Le(lhs, rhs) THEN Sub(rhs, lhs) ELSE Sub(lhs, rhs)
            IN  Le(Shl(diff, RelBits), rhs))
      THEN "P:C13:SuccessProbability-is-not-the-exact-success-fraction" ELSE "ok"
  >>

\* ---------------- leaf ----------------
TokChars(ts) == [i \in DOMAIN ts |-> IF Len(ts[i].v) >= 1 THEN ts[i].v[1] ELSE -1]
RECURSIVE Concat(_,_)
Concat(ts, i) == IF i > Len(ts) THEN <<>> ELSE ts[i].v \o Concat(ts, i+1)

SatisfiesI(cand) == \A i \in info.live : \E p \in DOMAIN cand : cand[p] \in info.reqs[i]
IsValidI(cand) == /\ Len(cand) = info.r.len
                  /\ \A p \in DOMAIN cand : cand[p] \in info.aset
                  /\ SatisfiesI(cand)

\* CharGen replayed along the recorded index path (the draw order is pinned by the verif hook)
RECURSIVE Replay(_,_,_)
Replay(ds, t, mt) ==
  LET L == info.r.len
      alpha == info.aseq
  IN
  IF t > mt THEN (IF ds = <<>> THEN [kind |-> "err", err |-> "exhausted"] ELSE [kind |-> "extra-draws"])
  ELSE IF Len(ds) < L THEN [kind |-> "too-few-draws"]
  ELSE IF \E p \in 1..L : ds[p][1] # Len(alpha) \/ ds[p][2] >= Len(alpha) THEN [kind |-> "draw-bound-not-alphabet-size"]
  ELSE LET cand == [p \in 1..L |-> alpha[ds[p][2] + 1]]
           rest == SubSeq(ds, L + 1, Len(ds))
       IN  IF SatisfiesI(cand)
           THEN (IF rest = <<>> THEN [kind |-> "ok", out |-> cand] ELSE [kind |-> "extra-draws"])
           ELSE Replay(rest, t+1, mt)

Expected(c, lf) ==
  IF info.r.len < 1 THEN [kind |-> "err", err |-> "length"]
  ELSE IF info.aseq = <<>> THEN [kind |-> "err", err |-> "nochars"]
  ELSE IF lf.d = <<>> /\ lf.res.kind = "err" THEN [kind |-> "err", err |-> "failrate"]
  ELSE Replay(lf.d, 1, c.maxTrials)

\* a call made concurrently with others (C14): only what it returned can be judged
ConcWhys(c, lf) ==
  LET res == lf.res
      chars == TokChars(res.toks)
  IN
  <<IF res.kind = "panic" THEN "P:C14:call-panicked-under-concurrency" ELSE "ok",
    IF res.kind = "ok" /\ ~(Len(res.toks) = info.r.len /\ \A i \in DOMAIN res.toks : Len(res.toks[i].v) = 1 /\ res.toks[i].t = 1 /\ IsValidI(chars))
      THEN "P:C14:password-returned-under-concurrency-violates-its-recipe" ELSE "ok",
    IF res.kind = "ok" /\ ~SameFloat(res.ent, c.ent) THEN "P:C14:password-returned-under-concurrency-does-not-carry-the-recipes-entropy" ELSE "ok",
    IF res.kind = "entropy" /\ ~SameFloat(res.ent, c.ent) THEN "P:C14:Entropy()-under-concurrency-differs-from-the-recipes-entropy" ELSE "ok",
    IF res.kind = "alphabet" /\ res.str # info.aseq THEN "P:C14:Alphabet()-under-concurrency-is-not-the-recipes-alphabet" ELSE "ok",
    IF res.kind = "err" /\ info.r.len >= 1 /\ info.A >= 1 /\ ~info.refAllowed THEN "P:C14:call-failed-under-concurrency" ELSE "ok"
  >>

LeafWhys(c, lf) ==
  IF lf.res.kind = "cut" THEN <<"ok">> ELSE
  IF lf.conc = 1 THEN ConcWhys(c, lf) ELSE
  LET r == info.r
      res == lf.res
      chars == TokChars(res.toks)
      ex == Expected(c, lf)
      valid == IsValidI(chars)
  IN
  <<IF res.kind = "panic" THEN "P:C13:Generate-panicked" ELSE "ok",
    IF res.kind \in {"errpw", "nil"} THEN "P:C13:error-together-with-a-password-or-neither" ELSE "ok",
    IF res.kind = "ok" /\ ~(/\ Len(res.toks) = r.len
                            /\ \A i \in DOMAIN res.toks : Len(res.toks[i].v) = 1 /\ res.toks[i].t = 1)
      THEN "P:C03:password-is-not-Length-single-character-atom-tokens" ELSE "ok",
    IF res.kind = "ok" /\ ~valid THEN "P:C03:password-violates-its-recipe" ELSE "ok",
    IF res.kind = "ok" /\ ~valid THEN "P:C02:a-string-outside-the-recipe-was-returned" ELSE "ok",
    IF res.kind = "ok" /\ res.str # Concat(res.toks, 1) THEN "P:C05:String()-is-not-the-concatenation-of-token-values" ELSE "ok",
    IF res.kind = "ok" /\ res.as = 1 /\ ~(/\ res.atoms = [k \in DOMAIN SelectSeq(res.toks, LAMBDA t : t.t = 1) |-> SelectSeq(res.toks, LAMBDA t : t.t = 1)[k].v]
                                          /\ res.seps = [k \in DOMAIN SelectSeq(res.toks, LAMBDA t : t.t = 0) |-> SelectSeq(res.toks, LAMBDA t : t.t = 0)[k].v])
      THEN "P:C05:Atoms()-or-Separators()-are-not-the-values-of-that-type-in-order" ELSE "ok",
    IF res.kind = "ok" /\ ~SameFloat(res.ent, c.ent) THEN "P:C06:Password.Entropy-differs-from-recipe-Entropy()" ELSE "ok",
    \* the choices of this very run have probability 1/pp (pp = product of the bounds of all its draws) and determine the password
    IF lf.ppc = 1 /\ res.kind = "ok" /\ lf.unann = 0 /\ lf.left = 0 /\ res.ent.k = "fin" /\ lf.pp # <<>> /\ ~EntropyNotAbove(res.ent, lf.pp, 2)
      THEN "P:C06:the-choices-that-produced-this-password-are-likelier-than-2^-Entropy" ELSE "ok",
    \* Process!LimitsAreTheCallers: MaxTrials / MaxFailRate are the caller's; a call that writes them (even to put them back later)
    \* races with every concurrent call that reads them, and runs itself under limits nobody configured
    IF lf.cfg = 1 THEN "P:C14:a-call-changed-the-process-wide-attempt-limits-while-it-ran" ELSE "ok",
    IF lf.cfg = 1 THEN "P:C13:the-attempt-limits-in-force-during-a-call-are-not-the-configured-ones" ELSE "ok",
    IF lf.det = 0 THEN "P:C09:same-choices-from-the-source-gave-a-different-result" ELSE "ok",
    IF res.kind = "ok" /\ lf.reads = 0 /\ info.A >= 2 THEN "P:C09:password-produced-without-reading-the-random-source" ELSE "ok",   \* a one-character alphabet is no choice
    IF r.len >= 1 /\ lf.nd > c.maxTrials * r.len THEN "P:C13:more-attempts-than-MaxTrials" ELSE "ok",
    \* (verdicts never depend on the wording of an error: a refusal is an error returned before any draw was made)
    IF res.kind = "err" /\ lf.nd = 0 /\ r.len >= 1 /\ info.A >= 1 /\ ~info.refAllowed THEN "P:C13:refused-although-success-chance-is-comfortably-above-threshold" ELSE "ok",
    IF res.kind = "ok" /\ info.refRequired THEN "P:C13:not-refused-although-requirements-cannot-be-met-reliably" ELSE "ok",
    \* an error after draws were made is only justified when the attempt budget was used up
    IF res.kind = "err" /\ r.len >= 1 /\ info.A >= 1 /\ lf.nd > 0 /\ lf.nd < c.maxTrials * r.len
      THEN "P:C13:error-for-a-recipe-that-can-be-honoured-before-the-attempts-were-used-up" ELSE "ok",
    IF res.kind = "ok" /\ (r.len < 1 \/ info.A = 0) THEN "P:C13:password-for-a-recipe-that-cannot-be-honoured" ELSE "ok",
    \* the candidates are known from the index path: giving up although one of them satisfied the recipe is a failure without cause
    IF res.kind = "err" /\ lf.unann = 0 /\ lf.trunc = 0 /\ lf.left = 0 /\ ex.kind = "extra-draws" /\ r.len >= 1 /\ lf.nd <= c.maxTrials * r.len
      THEN "P:C13:gave-up-although-a-candidate-it-drew-satisfied-the-recipe" ELSE "ok",
    IF lf.unann > 0 THEN "S:random-source-read-without-an-announced-bounded-draw" ELSE "ok",
    IF lf.left > 0 THEN "S:announced-draw-did-not-read-the-source" ELSE "ok",
    \* implementation-shaped: the CharGen machine along the same index path
    IF res.kind \in {"ok", "err"} /\ lf.unann = 0 /\ lf.trunc = 0
       /\ ~(\/ ex.kind = "ok" /\ res.kind = "ok" /\ chars = ex.out
            \/ ex.kind = "err" /\ res.kind = "err" /\ (res.err = ex.err \/ res.err = "other"))     \* reworded messages are not a disagreement
      THEN "S:CharGen-machine-disagrees-" \o ex.kind ELSE "ok"
  >>

\* ---------------- cellend ----------------
Weights == {acc[s] : s \in DOMAIN acc}
MaxW == CHOOSE w \in Weights : \A v \in Weights : v <= w
Decidable(c) == c.complete = 1 /\ c.opaque = 0 /\ c.unstable = 0 /\ c.denInt > 0

EndWhys(c) ==
  LET r == RecipeOf(c) IN
  IF ~Decidable(c) THEN <<"ok">>
  ELSE
  <<IF totW # c.denInt THEN "H:leaf-masses-do-not-sum-to-one" ELSE "ok",
    IF nleaf # c.nleaves THEN "H:leaf-count" ELSE "ok",
    IF DOMAIN acc # {} /\ cutW = 0 /\ Cardinality(Weights) # 1 THEN "P:C02:valid-strings-are-not-equally-likely" ELSE "ok",
    IF DOMAIN acc # {} /\ cutW = 0 /\ Cardinality(DOMAIN acc) # CountValidInt(r) THEN "P:C02:some-string-the-recipe-allows-is-never-returned" ELSE "ok",
    \* Alphabet() = exactly the characters that can appear: without requirements every one of them occurs in some password of a complete tree
    IF DOMAIN acc # {} /\ cutW = 0 /\ info.live = {} /\ r.len >= 1 /\ UNION {SeqSet(s) : s \in DOMAIN acc} # info.aset
      THEN "P:C03:Alphabet()-lists-a-character-that-no-password-can-contain" ELSE "ok",
    \* C06: no output likelier than 2^-E:  E <= log2(den / maxw); equality when uniform
    IF DOMAIN acc # {} /\ c.ent.k \notin {"panic"} /\
       ~(LET N == FromInt(c.denInt \div MaxW) IN    \* floor(den/maxw) <= 1/pmax ; exact when maxw | den
           IF c.denInt % MaxW = 0 THEN EntropyNotAbove(c.ent, N, Tol)
           ELSE EntropyNotAbove(c.ent, Add(N, One), Tol))
      THEN "P:C06:some-password-is-likelier-than-2^-Entropy" ELSE "ok",
    IF DOMAIN acc # {} /\ Cardinality(Weights) = 1 /\ failW = 0 /\ cutW = 0 /\ c.ent.k \notin {"panic"} /\ c.denInt % MaxW = 0
       /\ ~EntropyIsLog2(c.ent, FromInt(c.denInt \div MaxW), Tol)
      THEN "P:C06:entropy-below-the-true-value-for-a-uniform-recipe" ELSE "ok"
  >>

RECURSIVE BadOf(_,_,_)
BadOf(line, ws, i) == IF i > Len(ws) THEN <<>>
                      ELSE (IF ws[i] = "ok" THEN <<>> ELSE <<Bad(line, ws[i])>>) \o BadOf(line, ws, i+1)

Init == /\ l = 1 /\ bad = <<>> /\ cell = NoCell /\ info = NoCell /\ acc = <<>> /\ failW = 0 /\ cutW = 0 /\ totW = 0 /\ nleaf = 0 /\ done = FALSE
        /\ stats = [cells |-> 0, leaves |-> 0, decided |-> 0]

LeafWeight(c, lf) == IF Decidable(c) THEN ToInt(lf.w) ELSE 0

Step ==
  /\ l <= NLines
  /\ LET e == Trace[l] IN
     CASE e.op = "cell" ->
            /\ cell' = e /\ info' = InfoOf(e) /\ acc' = <<>> /\ failW' = 0 /\ cutW' = 0 /\ totW' = 0 /\ nleaf' = 0
            /\ bad' = bad \o BadOf(l, CellWhys(e), 1)
            /\ stats' = [stats EXCEPT !.cells = @ + 1]
       [] e.op = "leaf" ->
            LET w == LeafWeight(cell, e)
                s == e.res.str
            IN /\ bad' = bad \o BadOf(l, LeafWhys(cell, e), 1)
               /\ acc' = IF e.res.kind = "ok" /\ Decidable(cell)
                         THEN (IF s \in DOMAIN acc THEN [acc EXCEPT ![s] = @ + w] ELSE acc @@ (s :> w))
                         ELSE acc
               /\ failW' = IF e.res.kind \in {"ok", "cut"} THEN failW ELSE failW + w
               /\ cutW' = IF e.res.kind = "cut" THEN cutW + w ELSE cutW
               /\ totW' = totW + w /\ nleaf' = nleaf + 1
               /\ stats' = [stats EXCEPT !.leaves = @ + 1]
               /\ UNCHANGED <<cell, info>>
       [] e.op = "cellend" ->
            /\ bad' = bad \o BadOf(l, EndWhys(cell), 1)
            /\ stats' = [stats EXCEPT !.decided = @ + (IF Decidable(cell) /\ DOMAIN acc # {} THEN 1 ELSE 0)]
            /\ cell' = NoCell /\ info' = NoCell /\ acc' = <<>> /\ failW' = 0 /\ cutW' = 0 /\ totW' = 0 /\ nleaf' = 0
       [] e.op = "hang" ->   \* a call of a history did not return although the same call returned at once before an earlier call failed
            /\ bad' = bad \o <<Bad(l, "P:C15:a-call-made-after-an-earlier-call-failed-never-returns")>>
            /\ UNCHANGED <<cell, info, acc, failW, cutW, totW, nleaf, stats>>
       [] OTHER -> /\ bad' = bad \o <<Bad(l, "H:unknown-op")>>
                   /\ UNCHANGED <<cell, info, acc, failW, cutW, totW, nleaf, stats>>
  /\ l' = l + 1 /\ UNCHANGED done

Finish == /\ l = NLines + 1 /\ ~done
          /\ WriteResult(bad, stats)
          /\ done' = TRUE /\ UNCHANGED <<l, bad, cell, info, acc, failW, cutW, totW, nleaf, stats>>

Next == Step \/ Finish
Spec == Init /\ [][Next]_vars
=============================================================================
