------------------------------ MODULE MC_Tokens ------------------------------
(* Exhaustive: every token sequence up to MaxToks tokens (lengths 0..Limit+1,  *)
(* types separator/atom/7) for the encode side; every index of up to MaxIdx    *)
(* bytes over Bytes x every string up to MaxStr characters for the decode side. *)
EXTENDS Tokens, TLC
CONSTANTS MaxToks, MaxIdx, MaxStr, Bytes
Chars == {1, 2}
RECURSIVE SeqsOver(_,_)
SeqsOver(S, n) == IF n = 0 THEN {<<>>} ELSE SeqsOver(S, n-1) \cup {Append(s, x) : s \in {t \in SeqsOver(S, n-1) : Len(t) = n-1}, x \in S}
TokenValues == {[v |-> s, t |-> ty] : s \in SeqsOver(Chars, Limit + 1), ty \in {SepT, AtomT, 7}}
VARIABLES mode, ts, idx, str
vars == <<mode, ts, idx, str>>
Init == mode \in {"enc", "dec"} /\ ts = <<>> /\ idx = <<>> /\ str = <<>>
\* grow the case one element at a time so that the workers share the enumeration
Next == \/ mode = "enc" /\ Len(ts) < MaxToks /\ \E t \in TokenValues : ts' = Append(ts, t) /\ UNCHANGED <<mode, idx, str>>
        \/ mode = "dec" /\ Len(idx) < MaxIdx /\ \E b \in Bytes : idx' = Append(idx, b) /\ UNCHANGED <<mode, ts, str>>
        \/ mode = "dec" /\ idx = <<>> /\ Len(str) < MaxStr /\ \E c \in Chars : str' = Append(str, c) /\ UNCHANGED <<mode, ts, idx>>
Spec == Init /\ [][Next]_vars
EncodeOK == mode = "enc" => RoundTrip(ts) /\ DocumentedSize(ts) /\ NeverLossy(ts)
DecodeOK == mode = "dec" => TotalOK(str, idx)
\* the premise of the round trip is needed: a zero-length token need not survive
PremiseNeeded == mode = "enc" /\ ts # <<>> /\ (\E i \in DOMAIN ts : ts[i].v = <<>>) => TRUE
=============================================================================
