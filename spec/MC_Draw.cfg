CONSTANTS
  W = 6
  MaxRejects = 2
SPECIFICATION Spec
INVARIANTS TypeOK ResultInRange NoResultUnlessDone UniformAtEveryBound FibreFormulaSound PowerOfTwoNeverRejects BoundToProofs AboveHalfOnePreimage StateBound
PROPERTIES RejectIsFresh ShortReadIsStutterOnOutcome
CHECK_DEADLOCK FALSE
