--------------------------------- MODULE MC_Cli ---------------------------------
(* Sanity of the command-line mapping over a universe of class-list values:     *)
(* blanks are ignored, order and repetition do not matter, unknown names are    *)
(* ignored, an empty value means the defaults; defaults are the documented ones. *)
EXTENDS Cli, TLC
Names == <<UPPERCASE, LOWERCASE, DIGITSW, SYMBOLSW, AMBIGUOUSW, <<98,111,103,117,115>>>>
VARIABLES i, j, k, blank
vars == <<i, j, k, blank>>
Init == i \in 1..6 /\ j \in 0..6 /\ k \in 0..6 /\ blank \in BOOLEAN
Next == UNCHANGED vars
Spec == Init /\ [][Next]_vars
Join(a, b) == IF b = <<>> THEN a ELSE a \o (IF blank THEN <<44, 32>> ELSE <<44>>) \o b
W(n) == IF n = 0 THEN <<>> ELSE Names[n]
Val == Join(Join(W(i), W(j)), W(k))
Expected == SumFlags({ClassOfWord(W(i)), ClassOfWord(W(j)), ClassOfWord(W(k))} \ {0})
ParseOK == /\ ParseClasses(Val, 99) = Expected
           /\ ParseClasses(<<>>, 15) = 15
           /\ ParseClasses(Join(W(j), W(i)), 0) = ParseClasses(Join(W(i), W(j)), 0)
Defaults == LET a == [sub |-> "characters", flags |-> <<>>] IN
            /\ CharRecipeOf(a) = [len |-> 20, allow |-> 15, require |-> 0, exclude |-> 16, allowChars |-> <<>>, excludeChars |-> <<>>, requireSets |-> <<>>]
            /\ ~UsageError(a) /\ ~WantsEntropy(a)
            /\ LET b == [sub |-> "words", flags |-> <<>>] IN SizeOf(b) = 4 /\ SepOf(b) = [kind |-> "const", ch |-> 45] /\ CapOf(b) = "none" /\ ~UnknownList(b)
            /\ UsageError([sub |-> "", flags |-> <<>>]) /\ UsageError([sub |-> "bogus", flags |-> <<>>])
            /\ UsageError([sub |-> "words", flags |-> <<[name |-> "length", val |-> <<49>>, has |-> 1]>>])
=============================================================================
