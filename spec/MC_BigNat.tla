------------------------------ MODULE MC_BigNat ------------------------------
(* Exhaustive self-check of BigNat against native arithmetic with a tiny    *)
(* limb base, so that carries, borrows and multi-limb paths are all taken.  *)
EXTENDS Integers, Sequences, TLC
CONSTANTS B, MaxV
INSTANCE BigNat
VARIABLES x, y
vars == <<x, y>>
Init == x \in 0..MaxV /\ y \in 0..MaxV
Next == UNCHANGED vars
Spec == Init /\ [][Next]_vars
RECURSIVE P2(_)
P2(k) == IF k = 0 THEN 1 ELSE 2 * P2(k-1)
RECURSIVE NatPow(_,_)
NatPow(a, e) == IF e = 0 THEN 1 ELSE a * NatPow(a, e-1)
Agree ==
  LET a == FromInt(x)
      b == FromInt(y)
  IN  /\ IsBig(a) /\ IsBig(b)
      /\ ToInt(a) = x
      /\ ToInt(Add(a, b)) = x + y /\ IsBig(Add(a, b))
      /\ ToInt(Mul(a, b)) = x * y /\ IsBig(Mul(a, b))
      /\ Cmp(a, b) = (IF x < y THEN -1 ELSE IF x > y THEN 1 ELSE 0)
      /\ (x >= y => ToInt(Sub(a, b)) = x - y /\ IsBig(Sub(a, b)))
      /\ (y \in 1..(B-1) => ModSmall(a, y) = x % y)
      /\ (y < B => ToInt(MulSmall(a, y)) = x * y)
      /\ BitLen(a) = IntBits(x)
      /\ (y <= 9 => ToInt(Shl(a, y)) = x * P2(y) /\ IsBig(Shl(a, y)))
      /\ (y <= 14 => ToInt(Shr(a, y)) = x \div P2(y) /\ IsBig(Shr(a, y)))
      /\ (y <= 14 => (LowBitsNonZero(a, y) <=> (x % P2(y) # 0)))
      /\ (x <= 12 /\ y <= 4 => ToInt(Pow(a, y)) = NatPow(x, y))
      /\ (x <= 12 /\ y <= 6 => PowModInt(x, y, 7) = (NatPow(x, y) % 7))
      /\ (IsPow2(a) <=> (x > 0 /\ \E k \in 0..20 : x = P2(k)))
=============================================================================
