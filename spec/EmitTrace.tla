------------------------------ MODULE EmitTrace ------------------------------
(***************************************************************************)
(* C18: text captured from file descriptors 1 and 2 (stdout, stderr, the   *)
(* default logger) around REAL library calls, next to the secrets of that  *)
(* run: the returned password, every candidate incl. rejected ones         *)
(* (recomputed from the draws), atoms, words and separators of >= 3        *)
(* characters, and the recipe's distinctive characters (beyond U+02FF,     *)
(* which occur in no message of the library).  Emit!NoSecretEmitted on     *)
(* concrete text: none of them occurs in the captured output.              *)
(***************************************************************************)
EXTENDS TraceIO
VARIABLES l, bad, done, stats
vars == <<l, bad, done, stats>>
OccursAt(s, out, p) == \A k \in 1..Len(s) : out[p + k - 1] = s[k]
Occurs(s, out) == Len(s) > 0 /\ Len(s) <= Len(out) /\ \E p \in 1..(Len(out) - Len(s) + 1) : OccursAt(s, out, p)
\* a fragment of a secret is a leak too: any window of W consecutive characters of a secret of at least 2W characters
\* (only the first and last 40 windows are tried, which covers truncated renderings such as %.8q)
W == 6
Windows(s) == LET n == Len(s) - W + 1 IN {k \in 1..n : k <= 40 \/ k > n - 40}
PartOccurs(s, out) == Len(s) >= 2 * W /\ Len(out) >= W /\ \E k \in Windows(s) : Occurs(SubSeq(s, k, k + W - 1), out)
OutSet(out) == {out[i] : i \in DOMAIN out}
\* diagnostics are ASCII text and decimal numbers only
Whys(e) ==
  IF e.op # "emit" THEN <<"H:unknown-op">>
  ELSE
  <<IF e.out # <<>> /\ \E i \in DOMAIN e.secrets : Occurs(e.secrets[i], e.out) \/ PartOccurs(e.secrets[i], e.out)
      THEN "P:C18:a-password-candidate-word-or-separator-was-written-to-stdout-stderr-or-the-log" ELSE "ok",
    IF e.out # <<>> /\ \E i \in DOMAIN e.chars : e.chars[i] \in OutSet(e.out)
      THEN "P:C18:characters-of-the-recipes-alphabet-or-words-were-written-to-stdout-stderr-or-the-log" ELSE "ok">>
RECURSIVE BadOf(_,_,_)
BadOf(line, ws, i) == IF i > Len(ws) THEN <<>>
                      ELSE (IF ws[i] = "ok" THEN <<>> ELSE <<Bad(line, ws[i])>>) \o BadOf(line, ws, i+1)
Init == l = 1 /\ bad = <<>> /\ done = FALSE /\ stats = [runs |-> 0, withOutput |-> 0, secrets |-> 0]
Step == /\ l <= NLines
        /\ LET e == Trace[l] IN
             /\ bad' = bad \o BadOf(l, Whys(e), 1)
             /\ stats' = [runs |-> stats.runs + 1, withOutput |-> stats.withOutput + (IF e.out # <<>> THEN 1 ELSE 0),
                          secrets |-> stats.secrets + Len(e.secrets)]
        /\ l' = l + 1 /\ UNCHANGED done
Finish == /\ l = NLines + 1 /\ ~done /\ WriteResult(bad, stats) /\ done' = TRUE /\ UNCHANGED <<l, bad, stats>>
Next == Step \/ Finish
Spec == Init /\ [][Next]_vars
=============================================================================
