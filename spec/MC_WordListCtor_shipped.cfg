CONSTANTS
  Words <- MCWords
  Title <- MCTitle
  MaxIn = 4
  UncapCountedDuringPass = TRUE
SPECIFICATION Spec
INVARIANTS KeptIsSpec UncapIsSpec ErrOnlyForEmpty NoticeIsACount
PROPERTIES InputUntouched
CHECK_DEADLOCK FALSE
