---------------------------- MODULE WordListCtor ----------------------------
(***************************************************************************)
(* NewWordList (word_gen.go:70-126) as a state machine in which the        *)
(* ENVIRONMENT chooses the order in which Go's map iteration visits the    *)
(* words (second pass) and the order of the kept slice (third pass).       *)
(*                                                                         *)
(* Words are abstract values; Title (Go's strings.Title) is an environment *)
(* function given as a constant table.  UncapCountedDuringPass = TRUE is   *)
(* the code as shipped before the fix (count inside the deleting pass);    *)
(* FALSE is the repaired code (count in the third pass).                   *)
(***************************************************************************)
EXTENDS Integers, Sequences, FiniteSets, TLC

CONSTANTS Words, Title, MaxIn, UncapCountedDuringPass

VARIABLES input,    \* the caller's slice (never written)
          phase,    \* "start" "visit" "collect" "done" "err"
          uniq,     \* keys of the map
          toVisit,  \* keys the range loop has not produced yet
          uncap,    \* unCapitalizableCount
          kept,     \* ourWords
          notice    \* number printed in the duplicate notice, 0 = no notice
vars == <<input, phase, uniq, toVisit, uncap, kept, notice>>

RECURSIVE SeqsUpTo(_)
SeqsUpTo(n) == IF n = 0 THEN {<<>>} ELSE SeqsUpTo(n-1) \cup {Append(s, w) : s \in {t \in SeqsUpTo(n-1) : Len(t) = n-1}, w \in Words}

SeqSet(s) == {s[i] : i \in DOMAIN s}

\* ---- what the constructor must compute (C10, C08) ----
KeptSpec(in) == SeqSet(in) \ {Title[w] : w \in {v \in SeqSet(in) : Title[v] # v}}
UncapSpec(in) == Cardinality({w \in KeptSpec(in) : Title[w] = w})

Init == /\ input \in SeqsUpTo(MaxIn)
        /\ phase = "start" /\ uniq = {} /\ toVisit = {} /\ uncap = 0 /\ kept = <<>> /\ notice = 0

RejectEmpty == /\ phase = "start" /\ input = <<>>
               /\ phase' = "err" /\ UNCHANGED <<input, uniq, toVisit, uncap, kept, notice>>
Dedup == /\ phase = "start" /\ input # <<>>
         /\ uniq' = SeqSet(input) /\ toVisit' = SeqSet(input) /\ phase' = "visit"
         /\ UNCHANGED <<input, uncap, kept, notice>>
\* the range loop produces w (any not-yet-produced key: Go's order is unspecified)
Visit(w) == /\ phase = "visit" /\ w \in toVisit
            /\ toVisit' = toVisit \ {w}
            /\ IF w \notin uniq THEN UNCHANGED <<uniq, uncap>>                    \* deleted before being reached
               ELSE LET cap == Title[w] IN
                    IF cap \in uniq /\ cap # w THEN uniq' = uniq \ {cap} /\ UNCHANGED uncap   \* w is "polish": drop "Polish"
                    ELSE IF cap \in uniq /\ cap = w /\ UncapCountedDuringPass THEN uncap' = uncap + 1 /\ UNCHANGED uniq
                    ELSE UNCHANGED <<uniq, uncap>>
            /\ UNCHANGED <<input, phase, kept, notice>>
EndVisit == /\ phase = "visit" /\ toVisit = {}
            /\ phase' = "collect" /\ UNCHANGED <<input, uniq, toVisit, uncap, kept, notice>>
\* third pass: any order of the surviving keys
Collect(w) == /\ phase = "collect" /\ w \in uniq /\ w \notin SeqSet(kept)
              /\ kept' = Append(kept, w)
              /\ uncap' = IF ~UncapCountedDuringPass /\ Title[w] = w THEN uncap + 1 ELSE uncap
              /\ UNCHANGED <<input, phase, uniq, toVisit, notice>>
Finish == /\ phase = "collect" /\ SeqSet(kept) = uniq
          /\ notice' = IF Len(input) > Len(kept) THEN Len(input) - Len(kept) ELSE 0
          /\ phase' = "done" /\ UNCHANGED <<input, uniq, toVisit, uncap, kept>>

Next == RejectEmpty \/ Dedup \/ (\E w \in Words : Visit(w)) \/ EndVisit \/ (\E w \in Words : Collect(w)) \/ Finish
Spec == Init /\ [][Next]_vars

\* ---- properties ----
KeptIsSpec == phase = "done" => SeqSet(kept) = KeptSpec(input) /\ Len(kept) = Cardinality(KeptSpec(input))
UncapIsSpec == phase = "done" => uncap = UncapSpec(input)       \* C08: independent of every order
ErrOnlyForEmpty == phase = "err" => input = <<>>
NoticeIsACount == phase = "done" => notice = Len(input) - Cardinality(KeptSpec(input))
InputUntouched == [][input' = input]_vars
\* order/multiplicity independence of the specification itself
SpecIsSetFunction == \A s \in SeqsUpTo(2) : KeptSpec(s) = KeptSpec(s \o s) /\ (Len(s) = 2 => KeptSpec(s) = KeptSpec(<<s[2], s[1]>>))
=============================================================================
