------------------------------ MODULE DrawTrace ------------------------------
(***************************************************************************)
(* Validates events recorded from the REAL bounded draw (W = 32) against   *)
(* Draw.tla's relation, with 32-bit quantities carried as BigNat limbs.    *)
(* Division is never trusted: the harness supplies quotient witnesses and  *)
(* this module checks them by multiplication.                              *)
(***************************************************************************)
EXTENDS TraceIO, FiniteSets
B == 32768
INSTANCE BigNat

MM == <<0, 0, 4>>            \* 2^32
M1 == <<32767, 32767, 3>>    \* 2^32 - 1

VARIABLES l, bad, p1, p2, done, ndraw, nsweep
vars == <<l, bad, p1, p2, done, ndraw, nsweep>>

NoEv == [op |-> "none"]

WitnessOK(e) == /\ IsBig(e.n) /\ e.n # <<>>
                /\ Add(Mul(e.qT, e.n), e.rT) = M1
                /\ Lt(e.rT, e.n)
\* Draw!Threshold at W = 32: M when n is a power of two, else (M-1) - ((M-1) % n) = qT*n
Thr(e) == IF IsPow2(e.n) THEN MM ELSE Mul(e.qT, e.n)

Consumed(e) == SubSeq(e.words, 1, e.used)

\* implementation-shaped relation (Draw!Reject* ; Draw!Accept)
DrawShapeWhy(e) ==
  IF ~WitnessOK(e) THEN "harness:bad-witness"
  ELSE IF e.kind # "ok" THEN "shape:draw-did-not-return"
  ELSE IF e.used < 1 \/ e.used > Len(e.words) THEN "shape:word-count"
  ELSE IF \E i \in 1..(e.used-1) : Lt(e.words[i], Thr(e)) THEN "shape:redrew-after-acceptable-word"
  ELSE IF ~Lt(e.words[e.used], Thr(e)) THEN "shape:accepted-word-at-or-above-threshold"
  ELSE IF Add(Mul(e.q, e.n), e.res) # e.words[e.used] \/ ~Lt(e.res, e.n) THEN "shape:result-not-word-mod-n"
  ELSE "ok"

\* property-level facts that hold for ANY correct sampler
IsTailOf(e, p) == /\ p.op = "draw" /\ e.n = p.n /\ p.kind = "ok" /\ p.used > 1
                  /\ \E j \in 1..(p.used-1) : e.words = SubSeq(p.words, j+1, Len(p.words))
SameTape(e, p) == p.op = "draw" /\ e.n = p.n /\ e.words = p.words

DrawPropWhy(e) ==
  IF e.kind = "ok" /\ ~Lt(e.res, e.n) THEN "prop:result-out-of-range"
  \* (the same bytes delivered in other chunks: another RESULT is the violation; a draw that aborts on a short delivery builds nothing
  \* and is allowed by C09's second sentence - reported as a deviation of shape below)
  ELSE IF \E p \in {p1, p2} : SameTape(e, p) /\ e.kind = "ok" /\ p.kind = "ok" /\ (e.res # p.res \/ e.used # p.used)
       THEN "prop:same-bytes-different-result"
  ELSE "ok"
\* a continuation after rejected words that differs from a fresh draw is not by itself a
\* violation (another unbiased sampler might do that); the runner decides it with a depth-2 sweep
DrawContWhy(e) ==
  IF \E p \in {p1, p2} : IsTailOf(e, p) /\ (e.kind # "ok" \/ e.res # p.res) THEN "shape:continuation-not-fresh"
  ELSE IF \E p \in {p1, p2} : SameTape(e, p) /\ e.kind # p.kind THEN "shape:same-bytes-end-differently-in-other-chunks"
  ELSE "ok"

\* ---- sweep summaries: all 2^32 raw words presented as the word at depth d ----
SweepPropWhy(e) ==
  IF ~WitnessOK(e) THEN "harness:bad-witness"
  ELSE IF e.outOfRange # <<>> THEN "prop:result-out-of-range"
  ELSE IF e.odd # <<>> THEN "prop:short-read-request"
  ELSE IF Add(e.accepted, e.rejected) # MM THEN "harness:sweep-incomplete"
  ELSE IF e.sum # e.accepted \/ e.saturated # <<>> THEN "harness:histogram-inconsistent"
  ELSE IF e.min = <<>> THEN "prop:some-alternative-never-selected"
  ELSE IF e.min # e.max THEN "prop:alternatives-not-equally-many-raw-values"
  ELSE IF ~Lt(MM, Add(e.accepted, e.accepted)) THEN "prop:not-more-than-half-accepted"
  ELSE "ok"
SweepShapeWhy(e) ==
  IF e.accepted # Thr(e) THEN "shape:accepted-count-differs-from-threshold"
  ELSE IF Mul(e.min, e.n) # Thr(e) THEN "shape:fibre-size-not-T-div-n"
  ELSE "ok"

\* ---- a read of the source that no bounded draw announced (a generator using a raw word directly) ----
\* With everything else fixed and no re-read, the outcome is a function of that one word: the 2^32 equally likely words are
\* split into `outcomes' classes.  All alternatives equally likely would need equal classes, impossible unless their number
\* divides 2^32.  (Each outcome was seen many times - outcomes * 64 <= probes - so no class was missed by the probes.)
OpaqueWhys(e) ==
  IF e.unann = 0 THEN <<"ok">>
  \* (both rules need the reads to be attributable: code that fetches several words in one read - e.prefetch - consumes a
  \* further, already fetched word after a rejection without reading again, so "no re-read" proves nothing there)
  ELSE <<IF e.prefetch = 0 /\ e.rereads = 0 /\ e.outcomes >= 2 /\ e.outcomes * 64 <= e.probed /\ ~IsPow2Int(e.outcomes)
           THEN "prop:a-choice-among-a-non-power-of-two-number-of-alternatives-is-made-from-a-raw-word-without-rejection" ELSE "ok",
         \* information rule: the `random' scheme makes one binary choice per word (WordGen!CapChoices); those that no
         \* bounded draw announced must come out of the unannounced words - 2^k equally likely patterns need k fresh bits
         IF e.prefetch = 0 /\ e.baseKind = "ok" /\ e.cap = "random" /\ e.len - e.coins > 32 * e.unann
           THEN "prop:more-equally-likely-binary-choices-than-fresh-random-bits-were-read" ELSE "ok",
         "shape:random-source-read-without-an-announced-bounded-draw">>

\* count-only sweep (bounds too large for a per-result histogram): all 2^32 words presented; a necessary condition of
\* uniformity: the accepted words must split evenly over the n results, so their number is a multiple of n
SweepCountWhys(e) ==
  IF ~WitnessOK(e) THEN <<"harness:bad-witness">>
  ELSE IF Add(Mul(e.qa, e.n), e.ra) # e.accepted \/ ~Lt(e.ra, e.n) THEN <<"harness:bad-count-witness">>
  ELSE <<IF Add(e.accepted, e.rejected) # MM THEN "harness:sweep-incomplete" ELSE "ok",
         IF e.outOfRange # <<>> THEN "prop:result-out-of-range" ELSE "ok",
         IF e.ra # <<>> THEN "prop:accepted-raw-values-cannot-split-evenly-over-the-alternatives" ELSE "ok",
         IF ~Lt(MM, Add(e.accepted, e.accepted)) THEN "prop:not-more-than-half-accepted" ELSE "ok",
         IF e.accepted # Thr(e) THEN "shape:accepted-count-differs-from-threshold" ELSE "ok">>

\* ---- two raw words presented at the same position of a draw (first, or after the same k rejected words) ----
\* Above half the range (2n > 2^32) an unbiased sampler can give every alternative at most ONE raw value - two each would
\* need 2n > 2^32 values (Draw!AboveHalfOnePreimage) - so two different words accepted there with the same result refute it.
PairWhy(e) ==
  IF e.kind1 = "ok" /\ e.kind2 = "ok" /\ e.used1 = e.k + 1 /\ e.used2 = e.k + 1 /\ e.w1 # e.w2 /\ e.res1 = e.res2
     /\ Lt(MM, Add(e.n, e.n))
    THEN "prop:two-raw-values-select-the-same-alternative-at-a-bound-above-half-the-range"
  ELSE "ok"

\* a draw of the sweep that rejected e.rejected consecutive words of a fixed, well spread sequence: with more than half of all raw
\* values accepted (Draw!MoreThanHalf) that has probability below 2^-rejected - the draw does not terminate
StuckWhy(e) == IF e.rejected >= 1024 THEN "prop:draw-does-not-terminate-every-raw-word-is-rejected" ELSE "ok"

Whys(e) ==
  IF e.op = "stuck" THEN <<StuckWhy(e)>> ELSE
  IF e.op = "pair" THEN <<PairWhy(e)>> ELSE
  IF e.op = "sweepcount" THEN SweepCountWhys(e) ELSE
  IF e.op = "opaque" THEN OpaqueWhys(e) ELSE
  IF e.op = "draw" THEN <<DrawPropWhy(e), DrawContWhy(e), DrawShapeWhy(e)>>
  ELSE IF e.op = "draw0" THEN
     <<IF e.kind = "panic" /\ e.used = 0 THEN "ok" ELSE "shape:zero-bound-did-not-panic-before-reading">>
  ELSE IF e.op = "sweep" THEN <<SweepPropWhy(e), SweepShapeWhy(e)>>
  ELSE <<"harness:unknown-op">>

RECURSIVE BadOf(_,_,_)
BadOf(line, ws, i) == IF i > Len(ws) THEN <<>>
                      ELSE (IF ws[i] = "ok" THEN <<>> ELSE <<Bad(line, ws[i])>>) \o BadOf(line, ws, i+1)

Init == l = 1 /\ bad = <<>> /\ p1 = NoEv /\ p2 = NoEv /\ done = FALSE /\ ndraw = 0 /\ nsweep = 0

Step == /\ l <= NLines
        /\ LET e == Trace[l] IN
             /\ bad' = bad \o BadOf(l, Whys(e), 1)
             /\ p1' = e /\ p2' = p1
             /\ ndraw' = ndraw + (IF e.op = "draw" THEN 1 ELSE 0)
             /\ nsweep' = nsweep + (IF e.op = "sweep" THEN 1 ELSE 0)
        /\ l' = l + 1 /\ UNCHANGED done

Finish == /\ l = NLines + 1 /\ ~done
          /\ WriteResult(bad, [draws |-> ndraw, sweeps |-> nsweep])
          /\ done' = TRUE /\ UNCHANGED <<l, bad, p1, p2, ndraw, nsweep>>

Next == Step \/ Finish
Spec == Init /\ [][Next]_vars
=============================================================================
