------------------------------ MODULE MC_CharSets ------------------------------
(* One state per (allow, require, exclude, custom variant): the theorems a user *)
(* relies on, over ALL 2^15 class-flag triples with the real class table.       *)
EXTENDS CharSets, TLC
VARIABLES allow, require, exclude, variant
vars == <<allow, require, exclude, variant>>
Variants == <<
  [allowChars |-> <<>>, requireSets |-> <<>>, excludeChars |-> <<>>],
  [allowChars |-> <<97, 48, 233, 233, 33>>, requireSets |-> <<<<233, 946>>, <<79, 48, 57>>>>, excludeChars |-> <<>>],
  [allowChars |-> <<48, 79, 49, 73, 108, 53, 83, 33>>, requireSets |-> <<>>, excludeChars |-> <<97, 98, 53, 33, 233>>],
  [allowChars |-> <<>>, requireSets |-> <<<<51, 53, 55>>, <<55, 120>>>>, excludeChars |-> <<51>>]
>>
\* two levels so that TLC's workers share the enumeration: 32 initial states, each expanded to its 4096 successors
Init == allow \in 0..31 /\ require = 0 /\ exclude = 0 /\ variant = 0
Next == /\ variant = 0 /\ allow' = allow
        /\ require' \in 0..31 /\ exclude' \in 0..31 /\ variant' \in 1..Len(Variants)
Spec == Init /\ [][Next]_vars
R == [len |-> 2, allow |-> allow, require |-> require, exclude |-> exclude,
      allowChars |-> Variants[variant].allowChars, requireSets |-> Variants[variant].requireSets,
      excludeChars |-> Variants[variant].excludeChars]
RawRequired == FlagChars(require) \cup UNION {SeqSet(Variants[variant].requireSets[i]) : i \in DOMAIN Variants[variant].requireSets}
Theorems == variant = 0 \/
  /\ Alphabet(R) \cap Excluded(R) = {}                                   \* exclusion always wins
  /\ Alphabet(R) = (AllowedRaw(R) \cup RawRequired) \ Excluded(R)        \* allowed or required, not excluded
  /\ LET s == SortedSeq(Alphabet(R)) IN
       /\ Len(s) = Cardinality(Alphabet(R))
       /\ \A i \in 1..(Len(s)-1) : s[i] < s[i+1]                         \* sorted, no repeats
  /\ \A i \in DOMAIN ReqSets(R) : ReqSets(R)[i] \subseteq Alphabet(R)
  /\ (Alphabet(R) # {} => \A i \in LiveReq(R) : ReqSets(R)[i] # {})
  \* class table facts (C16): sizes and the documented overlaps of Ambiguous
  /\ Cardinality(ClassChars(Uppers)) = 26 /\ Cardinality(ClassChars(Lowers)) = 26 /\ Cardinality(ClassChars(Digits)) = 10
  /\ Cardinality(ClassChars(Symbols)) = 6 /\ Cardinality(ClassChars(Ambiguous)) = 7
  /\ Cardinality(ClassChars(Ambiguous) \cap ClassChars(Uppers)) = 3
  /\ Cardinality(ClassChars(Ambiguous) \cap ClassChars(Lowers)) = 1
  /\ Cardinality(ClassChars(Ambiguous) \cap ClassChars(Digits)) = 3
=============================================================================
