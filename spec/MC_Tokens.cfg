CONSTANTS
  Limit = 2
  MaxToks = 3
  MaxIdx = 5
  MaxStr = 3
  Bytes = {0, 1, 2, 3, 4, 200}
SPECIFICATION Spec
INVARIANTS EncodeOK DecodeOK
CHECK_DEADLOCK FALSE
