--------------------------------- MODULE Api ---------------------------------
(***************************************************************************)
(* How calls on recipe VALUES touch state (char_gen.go / word_gen.go       *)
(* receivers, the NewSFFunction closure, the package-level presets).       *)
(*                                                                         *)
(* A recipe object o has public fields pub[o] (an abstract value) and      *)
(* hidden derived fields hid[o] (allowedSet / requiredSets; "nil" until    *)
(* built).  Every API method has a VALUE receiver: the call works on a     *)
(* private copy, builds the derived fields INTO THAT COPY, uses them and   *)
(* returns.  A call is four steps, so TLC explores every interleaving of   *)
(* concurrent calls (C14) and every history of calls and caller-side field *)
(* updates (C15).                                                          *)
(*                                                                         *)
(* Two switches describe the regressions the properties fear (both FALSE   *)
(* for spg; TLC refutes the properties when one is TRUE):                  *)
(*   PointerReceiver  the derived fields are built into the shared object  *)
(*   CacheDerived     derived fields, once built, are reused by later calls *)
(*   GlobalLock       reads of the random source are serialised by a        *)
(*                    process-wide lock that a failing read leaves held     *)
(* A call may also FAIL while it draws (the random source errors, the call  *)
(* panics, the caller recovers): it returns nothing and leaves nothing      *)
(* behind - in particular nothing that could block or change a later call.  *)
(***************************************************************************)
EXTENDS Integers, FiniteSets

CONSTANTS Objects,        \* recipe values shared by the goroutines
          Goroutines,
          Values,         \* abstract public-field values
          MaxCalls,       \* calls per goroutine
          MaxSets,        \* caller-side field updates in a history
          PointerReceiver, CacheDerived, GlobalLock

Nil == <<"nil">>
Derive(v) == <<"derived", v>>        \* what buildCharacterList computes from the fields
Result(d) == <<"result", d>>         \* what a call returns, a function of the derived fields it used

VARIABLES pub,     \* [Objects -> Values]
          hid,     \* [Objects -> {"nil"} \cup derived values]   the caller-visible object's hidden fields
          pc,      \* [Goroutines -> "idle" | "copied" | "built" | "used"]
          obj,     \* [Goroutines -> Objects]   object of the call in progress
          lpub,    \* [Goroutines -> Values]    the copy's public fields
          lhid,    \* [Goroutines -> ...]       the copy's hidden fields
          res,     \* [Goroutines -> ...]       result about to be returned
          seen,    \* [Goroutines -> Values]    pub[obj] when the call started (for the purity property)
          calls, sets,
          writing, \* set of goroutines currently inside a write to SHARED hidden state
          lock     \* process-wide lock around source reads: "free" or its holder (always "free" unless GlobalLock)
vars == <<pub, hid, pc, obj, lpub, lhid, res, seen, calls, sets, writing, lock>>

Init == /\ pub \in [Objects -> Values] /\ hid = [o \in Objects |-> Nil]
        /\ pc = [g \in Goroutines |-> "idle"] /\ obj \in [Goroutines -> Objects]
        /\ lpub = [g \in Goroutines |-> CHOOSE v \in Values : TRUE] /\ lhid = [g \in Goroutines |-> Nil]
        /\ res = [g \in Goroutines |-> Nil] /\ seen = lpub
        /\ calls = [g \in Goroutines |-> 0] /\ sets = 0 /\ writing = {} /\ lock = "free"

\* r.Method(): the receiver is copied (struct copy: field values, incl. the pointers of already-built derived fields)
CopyIn(g, o) == /\ pc[g] = "idle" /\ calls[g] < MaxCalls
                /\ obj' = [obj EXCEPT ![g] = o] /\ lpub' = [lpub EXCEPT ![g] = pub[o]] /\ lhid' = [lhid EXCEPT ![g] = hid[o]]
                /\ seen' = [seen EXCEPT ![g] = pub[o]] /\ pc' = [pc EXCEPT ![g] = "copied"]
                /\ calls' = [calls EXCEPT ![g] = @ + 1]
                /\ UNCHANGED <<pub, hid, res, sets, writing, lock>>
\* buildCharacterList: assigns fresh derived values - to the copy (value receiver) or to the shared object (pointer receiver)
BuildBegin(g) == /\ pc[g] = "copied"
                 /\ IF CacheDerived /\ lhid[g] # Nil
                    THEN UNCHANGED <<hid, lhid, writing>>                        \* reuse what an earlier call left behind
                    ELSE IF PointerReceiver
                         THEN /\ hid' = [hid EXCEPT ![obj[g]] = Derive(pub[obj[g]])]
                              /\ lhid' = [lhid EXCEPT ![g] = Derive(pub[obj[g]])]
                              /\ writing' = writing \cup {g}
                         ELSE /\ lhid' = [lhid EXCEPT ![g] = Derive(lpub[g])] /\ UNCHANGED <<hid, writing>>
                 /\ pc' = [pc EXCEPT ![g] = "built"]
                 /\ UNCHANGED <<pub, obj, lpub, res, seen, calls, sets, lock>>
\* draw characters / compute entropy from the derived fields
Use(g) == /\ pc[g] = "built" /\ (GlobalLock => lock = "free")      \* (acquire; read; release) - atomic here, the lock is free again afterwards
          /\ res' = [res EXCEPT ![g] = Result(IF PointerReceiver THEN hid[obj[g]] ELSE lhid[g])]
          /\ writing' = writing \ {g}
          /\ pc' = [pc EXCEPT ![g] = "used"]
          /\ UNCHANGED <<pub, hid, obj, lpub, lhid, seen, calls, sets, lock>>
Return(g) == /\ pc[g] = "used"
             /\ pc' = [pc EXCEPT ![g] = "idle"]
             /\ UNCHANGED <<pub, hid, obj, lpub, lhid, res, seen, calls, sets, writing, lock>>
\* the random source fails while the call draws: panic, recovered by the caller; no result.  With GlobalLock the failing
\* read happens inside the critical section and the panic skips the release.
Fail(g) == /\ pc[g] = "built" /\ (GlobalLock => lock = "free")
           /\ pc' = [pc EXCEPT ![g] = "idle"] /\ writing' = writing \ {g}
           /\ lock' = IF GlobalLock THEN g ELSE lock
           /\ UNCHANGED <<pub, hid, obj, lpub, lhid, res, seen, calls, sets>>
\* the caller changes a public field between calls (only when no call on that object is in progress)
SetField(o, v) == /\ sets < MaxSets /\ \A g \in Goroutines : pc[g] = "idle"
                  /\ pub' = [pub EXCEPT ![o] = v] /\ sets' = sets + 1
                  /\ UNCHANGED <<hid, pc, obj, lpub, lhid, res, seen, calls, writing, lock>>

Next == \/ \E g \in Goroutines, o \in Objects : CopyIn(g, o)
        \/ \E g \in Goroutines : BuildBegin(g) \/ Use(g) \/ Return(g) \/ Fail(g)
        \/ \E o \in Objects, v \in Values : SetField(o, v)
Spec == Init /\ [][Next]_vars

\* ---- C14 ----
\* no two goroutines are ever inside conflicting accesses to the same shared cell: a writer to hid[o]
\* never overlaps another goroutine that is building or using derived state of the same object
NoConflictingAccess ==
  \A g1, g2 \in Goroutines : (g1 # g2 /\ g1 \in writing /\ obj[g1] = obj[g2]) => pc[g2] \notin {"built", "copied"}
SharedDerivedNeverWritten == \A o \in Objects : hid[o] = Nil
\* ---- C15 ----
\* a call's result depends only on the field values the object had when the call was made
ResultIsFunctionOfFields == \A g \in Goroutines : pc[g] = "used" => res[g] = Result(Derive(seen[g]))
\* a failed call leaves nothing behind that a later call could wait for: a call that has built its state can always go on
FailedCallLeavesNothingHeld == lock = "free"
NoCallBlocked == \A g \in Goroutines : pc[g] = "built" => ENABLED (Use(g) \/ Fail(g))
CallsLeaveFieldsUnchanged == [][(\A o \in Objects, v \in Values : ~SetField(o, v)) => pub' = pub]_vars
=============================================================================
