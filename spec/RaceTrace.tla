------------------------------ MODULE RaceTrace ------------------------------
(***************************************************************************)
(* C14: reports of the Go race detector recorded while goroutines shared   *)
(* recipe values, a word list and separator functions.  In Api.tla no two  *)
(* goroutines are ever inside conflicting accesses to one shared cell      *)
(* (NoConflictingAccess): a "race" event - two unsynchronised accesses to  *)
(* the same memory, at least one a write - is a step the specification     *)
(* has no action for.  "run" events record the configurations exercised.   *)
(***************************************************************************)
EXTENDS TraceIO
VARIABLES l, bad, done, stats
vars == <<l, bad, done, stats>>
Whys(e) ==
  IF e.op = "run" THEN <<IF e.calls > 0 THEN "ok" ELSE "H:stress-run-made-no-calls">>
  ELSE IF e.op = "race" THEN <<"P:C14:data-race-on-shared-recipe-list-or-separator-state">>
  ELSE IF e.op = "crash" THEN <<"P:C14:concurrent-calls-crashed-the-process">>
  \* goroutines waiting for minutes inside library code while every loop of the driver is bounded by the clock
  ELSE IF e.op = "hang" THEN <<"P:C14:concurrent-calls-on-shared-values-never-return">>
  ELSE <<"H:unknown-op">>
RECURSIVE BadOf(_,_,_)
BadOf(line, ws, i) == IF i > Len(ws) THEN <<>>
                      ELSE (IF ws[i] = "ok" THEN <<>> ELSE <<Bad(line, ws[i])>>) \o BadOf(line, ws, i+1)
Init == l = 1 /\ bad = <<>> /\ done = FALSE /\ stats = [runs |-> 0, races |-> 0]
Step == /\ l <= NLines
        /\ LET e == Trace[l] IN
             /\ bad' = bad \o BadOf(l, Whys(e), 1)
             /\ stats' = [runs |-> stats.runs + (IF e.op = "run" THEN 1 ELSE 0), races |-> stats.races + (IF e.op \in {"race", "crash", "hang"} THEN 1 ELSE 0)]
        /\ l' = l + 1 /\ UNCHANGED done
Finish == /\ l = NLines + 1 /\ ~done /\ WriteResult(bad, stats) /\ done' = TRUE /\ UNCHANGED <<l, bad, stats>>
Next == Step \/ Finish
Spec == Init /\ [][Next]_vars
=============================================================================
