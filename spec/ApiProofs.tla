------------------------------ MODULE ApiProofs ------------------------------
(***************************************************************************)
(* C14 / C15 on the call protocol of Api.tla for ANY number of goroutines, *)
(* objects, calls and field updates: an inductive invariant, checked by     *)
(* the TLA+ proof system (tlapm ApiProofs.tla).  TLC explores the same      *)
(* protocol exhaustively for 3 goroutines x 2 calls (MC_Api.cfg) and for    *)
(* histories of 4 calls and 3 updates (MC_Api_hist.cfg).                    *)
(***************************************************************************)
EXTENDS Api, TLAPS

ASSUME Switches == ~PointerReceiver /\ ~CacheDerived /\ ~GlobalLock

PCs == {"idle", "copied", "built", "used"}

IInv ==
  /\ pc = [g \in Goroutines |-> pc[g]] /\ \A g \in Goroutines : pc[g] \in PCs
  /\ obj = [g \in Goroutines |-> obj[g]] /\ \A g \in Goroutines : obj[g] \in Objects
  /\ lpub = [g \in Goroutines |-> lpub[g]]
  /\ lhid = [g \in Goroutines |-> lhid[g]]
  /\ res = [g \in Goroutines |-> res[g]]
  /\ seen = [g \in Goroutines |-> seen[g]]
  /\ hid = [o \in Objects |-> Nil]
  /\ writing = {}
  /\ lock = "free"
  /\ \A g \in Goroutines :
       /\ pc[g] = "copied" => lpub[g] = seen[g] /\ lhid[g] = Nil
       /\ pc[g] \in {"built", "used"} => lhid[g] = Derive(seen[g])
       /\ pc[g] = "used" => res[g] = Result(Derive(seen[g]))

LEMMA NilIsNotDerived == \A v : Nil # Derive(v)
  BY DEF Nil, Derive

THEOREM InitIInv == Init => IInv
  BY DEF Init, IInv, PCs

THEOREM StepIInv == IInv /\ [Next]_vars => IInv'
  <1> SUFFICES ASSUME IInv, [Next]_vars PROVE IInv'
    OBVIOUS
  <1> USE Switches
  <1>1. ASSUME NEW g \in Goroutines, NEW o \in Objects, CopyIn(g, o) PROVE IInv'
    BY <1>1 DEF CopyIn, IInv, PCs
  <1>2. ASSUME NEW g \in Goroutines, BuildBegin(g) PROVE IInv'
    BY <1>2 DEF BuildBegin, IInv, PCs
  <1>3. ASSUME NEW g \in Goroutines, Use(g) PROVE IInv'
    BY <1>3 DEF Use, IInv, PCs
  <1>4. ASSUME NEW g \in Goroutines, Return(g) PROVE IInv'
    BY <1>4 DEF Return, IInv, PCs
  <1>5. ASSUME NEW g \in Goroutines, Fail(g) PROVE IInv'
    BY <1>5 DEF Fail, IInv, PCs
  <1>6. ASSUME NEW o \in Objects, NEW v \in Values, SetField(o, v) PROVE IInv'
    BY <1>6 DEF SetField, IInv, PCs
  <1>7. CASE UNCHANGED vars
    BY <1>7 DEF vars, IInv, PCs
  <1> QED BY <1>1, <1>2, <1>3, <1>4, <1>5, <1>6, <1>7 DEF Next

THEOREM IInvImplies ==
  IInv => /\ SharedDerivedNeverWritten
          /\ ResultIsFunctionOfFields
          /\ NoConflictingAccess
          /\ FailedCallLeavesNothingHeld
  BY DEF IInv, SharedDerivedNeverWritten, ResultIsFunctionOfFields, NoConflictingAccess, FailedCallLeavesNothingHeld

\* no library call changes a public field: only the caller does (C15, CallsLeaveFieldsUnchanged)
THEOREM PubOnlyBySetField ==
  ASSUME [Next]_vars, \A o \in Objects, v \in Values : ~SetField(o, v)
  PROVE  pub' = pub
  BY DEF Next, vars, CopyIn, BuildBegin, Use, Return, Fail

THEOREM Safety == Spec => [](SharedDerivedNeverWritten /\ ResultIsFunctionOfFields /\ NoConflictingAccess /\ FailedCallLeavesNothingHeld)
  <1>1. Spec => []IInv
    BY InitIInv, StepIInv, PTL DEF Spec
  <1> QED BY <1>1, IInvImplies, PTL
=============================================================================
