------------------------------- MODULE WordGen -------------------------------
(***************************************************************************)
(* WLRecipe.Generate and WLRecipe.Entropy (word_gen.go:129-219) as a state *)
(* machine; one action per guard, draw and loop step.  Bounded draws are   *)
(* atomic index choices made by the environment (Draw.tla reduces the tape *)
(* to an index).  Words are abstract values with an environment function   *)
(* Title.  A separator function is abstracted to a uniform choice from a   *)
(* duplicate-free sequence of values (that a CharRecipe-built separator is *)
(* uniform over its valid strings is CharGen's business); the value 0      *)
(* stands for the empty string.                                            *)
(*                                                                         *)
(* Named deviations of the code that the specification records:            *)
(*   WLEntropyDrawsSeparator  Entropy() calls the separator function once, *)
(*                            so Generate makes one extra, discarded draw; *)
(*   SkipEmptyAtom            an empty word would be dropped (never here:  *)
(*                            lists contain no empty word).                *)
(***************************************************************************)
EXTENDS Integers, Sequences, FiniteSets, TLC

CONSTANTS Title,      \* function Word -> Word
          Recipes     \* universe: records [kept, hasList, len, cap, sepFunc, sepVals]
                      \*   kept: duplicate-free Seq(Word); cap: "none" "first" "all" "random" "one" or anything else
                      \*   sepFunc: TRUE = SeparatorFunc set; sepVals: Seq of values, 0 = empty string

Sep == 0
Atom == 1

VARIABLES r, pc, caps, i, toks, err, ndraws, entropyCalls
vars == <<r, pc, caps, i, toks, err, ndraws, entropyCalls>>

Size == IF r.hasList THEN Len(r.kept) ELSE 0
SeqSet(s) == {s[k] : k \in DOMAIN s}

Init == /\ r \in Recipes
        /\ pc = "start" /\ caps = {} /\ i = 0 /\ toks = <<>> /\ err = "" /\ ndraws = 0 /\ entropyCalls = 0

NoListErr == /\ pc = "start" /\ Size = 0      \* nil list (after the fix) or empty list
             /\ pc' = "err" /\ err' = "nolist" /\ UNCHANGED <<r, caps, i, toks, ndraws, entropyCalls>>
LengthErr == /\ pc = "start" /\ Size > 0 /\ r.len < 1
             /\ pc' = "err" /\ err' = "length" /\ UNCHANGED <<r, caps, i, toks, ndraws, entropyCalls>>
Begin == /\ pc = "start" /\ Size > 0 /\ r.len >= 1
         /\ pc' = "caps" /\ UNCHANGED <<r, caps, i, toks, err, ndraws, entropyCalls>>

CapsFirst == /\ pc = "caps" /\ r.cap = "first" /\ caps' = {0} /\ pc' = "words" /\ UNCHANGED <<r, i, toks, err, ndraws, entropyCalls>>
CapsAll   == /\ pc = "caps" /\ r.cap = "all" /\ caps' = 0..(r.len-1) /\ pc' = "words" /\ UNCHANGED <<r, i, toks, err, ndraws, entropyCalls>>
CapsNone  == /\ pc = "caps" /\ r.cap \notin {"first", "all", "one", "random"}
             /\ caps' = {} /\ pc' = "words" /\ UNCHANGED <<r, i, toks, err, ndraws, entropyCalls>>
CapsOne(w) == /\ pc = "caps" /\ r.cap = "one" /\ w \in 0..(r.len-1)       \* one draw over Length
              /\ caps' = {w} /\ pc' = "words" /\ ndraws' = ndraws + 1 /\ UNCHANGED <<r, i, toks, err, entropyCalls>>
\* "random": Length coin flips, one per step; i counts the flips made
CapsRandomBit(b) == /\ pc = "caps" /\ r.cap = "random" /\ i < r.len /\ b \in {0, 1}
                    /\ caps' = IF b = 1 THEN caps \cup {i} ELSE caps
                    /\ i' = i + 1 /\ ndraws' = ndraws + 1 /\ UNCHANGED <<r, pc, toks, err, entropyCalls>>
CapsRandomDone == /\ pc = "caps" /\ r.cap = "random" /\ i = r.len
                  /\ i' = 0 /\ pc' = "words" /\ UNCHANGED <<r, caps, toks, err, ndraws, entropyCalls>>

DrawWord(k) == /\ pc = "words" /\ i < r.len /\ k \in 1..Size                  \* one draw over Size
               /\ LET w == IF i \in caps THEN Title[r.kept[k]] ELSE r.kept[k]
                  IN toks' = Append(toks, <<Atom, w>>)
               /\ ndraws' = ndraws + 1
               /\ pc' = IF i < r.len - 1 THEN "sep" ELSE "entropy"
               /\ UNCHANGED <<r, caps, i, err, entropyCalls>>
\* the separator for the gap after word i: a fresh call of the separator function
CallSeparator(j) == /\ pc = "sep" /\ j \in DOMAIN r.sepVals
                    /\ LET s == r.sepVals[j] IN
                         toks' = IF s # 0 THEN Append(toks, <<Sep, s>>) ELSE toks     \* empty separators leave no token
                    /\ ndraws' = IF r.sepFunc THEN ndraws + 1 ELSE ndraws
                    /\ i' = i + 1 /\ pc' = "words" /\ UNCHANGED <<r, caps, err, entropyCalls>>
\* p.Entropy = r.Entropy(): with a separator function this calls it once more and discards the value
FinishEntropy(j) == /\ pc = "entropy" /\ j \in DOMAIN r.sepVals
                    /\ entropyCalls' = entropyCalls + 1
                    /\ ndraws' = IF r.sepFunc THEN ndraws + 1 ELSE ndraws
                    /\ pc' = "done" /\ UNCHANGED <<r, caps, i, toks, err>>
DrawFault == /\ pc \in {"caps", "words", "sep", "entropy"}     \* the random source fails at a draw: panic, nothing returned
             /\ pc' = "panic" /\ UNCHANGED <<r, caps, i, toks, err, ndraws, entropyCalls>>

Next == \/ NoListErr \/ LengthErr \/ Begin \/ CapsFirst \/ CapsAll \/ CapsNone \/ CapsRandomDone
        \/ (\E w \in 0..(r.len-1) : CapsOne(w)) \/ (\E b \in {0, 1} : CapsRandomBit(b))
        \/ (\E k \in 1..Size : DrawWord(k))
        \/ (\E j \in DOMAIN r.sepVals : CallSeparator(j) \/ FinishEntropy(j))
        \/ DrawFault
Spec == Init /\ [][Next]_vars /\ WF_vars(Next)

\* ---------------- what a wordlist password must look like (C05) ----------------
Atoms(ts) == SelectSeq(ts, LAMBDA t : t[1] = Atom)
Seps(ts)  == SelectSeq(ts, LAMBDA t : t[1] = Sep)
KeptSet == SeqSet(r.kept)
TitledSet == {Title[w] : w \in KeptSet}
SepSet == SeqSet(r.sepVals) \ {0}
CanBeEmptySep == 0 \in SeqSet(r.sepVals)

\* positions of the capitalised atoms are of the shape the scheme prescribes (existentially: a
\* word may equal its own title-cased form)
CapShapeOK(as) ==
  LET n == Len(as)
      low(k) == as[k][2] \in KeptSet
      up(k)  == as[k][2] \in TitledSet
  IN CASE r.cap = "first"  -> up(1) /\ \A k \in 2..n : low(k)
       [] r.cap = "all"    -> \A k \in 1..n : up(k)
       [] r.cap = "one"    -> \E c \in 1..n : up(c) /\ \A k \in (1..n) \ {c} : low(k)
       [] r.cap = "random" -> \A k \in 1..n : low(k) \/ up(k)
       [] OTHER            -> \A k \in 1..n : low(k)

\* atoms and separators interleave: A (S? A)*, never leading/trailing, at most one separator per gap,
\* exactly one when the separator cannot be empty
RECURSIVE Interleaved(_,_)
Interleaved(ts, expectAtom) ==
  IF ts = <<>> THEN ~expectAtom
  ELSE IF expectAtom THEN Head(ts)[1] = Atom /\ Interleaved(Tail(ts), FALSE)
  ELSE IF Head(ts)[1] = Sep THEN Head(ts)[2] \in SepSet /\ Tail(ts) # <<>> /\ Interleaved(Tail(ts), TRUE)
  ELSE CanBeEmptySep /\ Interleaved(ts, TRUE)

StructureOK(ts) == /\ Len(Atoms(ts)) = r.len
                   /\ Interleaved(ts, TRUE)
                   /\ (~CanBeEmptySep => Len(Seps(ts)) = r.len - 1)
                   /\ (SepSet = {} => Len(Seps(ts)) = 0)
                   /\ CapShapeOK(Atoms(ts))

\* ---------------- invariants ----------------
TypeOK == pc \in {"start", "caps", "words", "sep", "entropy", "done", "err", "panic"}
OutStructure == pc = "done" => StructureOK(toks)                                             \* C05
CapsShape == pc \in {"words", "sep", "entropy", "done"} =>                                       \* C05
               CASE r.cap = "first" -> caps = {0} [] r.cap = "all" -> caps = 0..(r.len-1)
                 [] r.cap = "one" -> Cardinality(caps) = 1 /\ caps \subseteq 0..(r.len-1)
                 [] r.cap = "random" -> caps \subseteq 0..(r.len-1) [] OTHER -> caps = {}
ErrIff == pc = "err" => (err = "nolist" /\ Size = 0) \/ (err = "length" /\ Size > 0 /\ r.len < 1)   \* C13
NoOutputUnlessDone == pc \in {"err", "panic"} => TRUE
EntropyComputedOnce == pc = "done" => entropyCalls = 1
DrawBudget == ndraws <= (IF r.len > 0 THEN 3 * r.len + 1 ELSE 0)
RecipeNeverWritten == [][r' = r]_vars
\* C09: after a failing read nothing more happens - in particular nothing is returned
PanicIsTerminal == [][pc = "panic" => pc' = "panic"]_vars
Terminates == <>(pc \in {"done", "err", "panic"})

\* ---------------- refinement: Generate implements "pick any password of the recipe, or report an error" ----------------
Outcome == CASE pc = "done" -> <<"ok", toks>> [] pc = "err" -> <<"err", err>> [] pc = "panic" -> <<"panic">> [] OTHER -> <<"pending">>
AbstractStep == /\ Outcome = <<"pending">>
                /\ \/ Outcome' = <<"pending">>
                   \/ Outcome'[1] = "ok" /\ Size > 0 /\ r.len >= 1 /\ StructureOK(Outcome'[2])
                   \/ Outcome'[1] = "err" /\ Outcome'[2] \in {"nolist", "length"}
                   \/ Outcome' = <<"panic">>
RefinesPickPassword == [][AbstractStep \/ Outcome' = Outcome]_vars

\* ---------------- C04 as a counting statement over the complete choice cell ----------------
\* a path = <<caps set, word indices, separator indices>>; every path has the same probability when
\* the draws are uniform, so "all passwords equally likely" is "every password has the same number of paths"
CapChoices == CASE r.cap = "first" -> {{0}} [] r.cap = "all" -> {0..(r.len-1)}
                [] r.cap = "one" -> {{c} : c \in 0..(r.len-1)} [] r.cap = "random" -> SUBSET (0..(r.len-1))
                [] OTHER -> {{}}
Paths == {<<c, ws, ss>> : c \in CapChoices, ws \in [0..(r.len-1) -> 1..Size], ss \in [0..(r.len-2) -> DOMAIN r.sepVals]}
RECURSIVE Build(_,_)
Build(p, k) == IF k = r.len THEN <<>>
               ELSE LET w == IF k \in p[1] THEN Title[r.kept[p[2][k]]] ELSE r.kept[p[2][k]]
                        s == IF k < r.len - 1 THEN r.sepVals[p[3][k]] ELSE 0
                    IN <<<<Atom, w>>>> \o (IF s # 0 THEN <<<<Sep, s>>>> ELSE <<>>) \o Build(p, k+1)
OutOf(p) == Build(p, 0)
Outputs == {OutOf(p) : p \in Paths}
AllCapitalisable == \A w \in KeptSet : Title[w] # w
\* premise of C04: no two entries share a title-cased form unless one of them is that form
TitlePremise == \A v, w \in KeptSet : (v # w /\ Title[v] = Title[w]) => (Title[v] = v \/ Title[w] = w)
PathCount(o) == Cardinality({p \in Paths : OutOf(p) = o})
RECURSIVE IPow(_,_)
IPow(a, e) == IF e = 0 THEN 1 ELSE a * IPow(a, e-1)
CapFactor == CASE r.cap = "random" -> IPow(2, r.len) [] r.cap = "one" -> r.len [] OTHER -> 1
\* the integer whose log2 the entropy formula reports (bonus only when every word is capitalisable)
EntropyCount == IPow(Size, r.len) * (IF AllCapitalisable THEN CapFactor ELSE 1) * IPow(Len(r.sepVals), r.len - 1)
UniformWhenCapitalisable ==
  (pc = "start" /\ Size > 0 /\ r.len >= 1 /\ AllCapitalisable /\ TitlePremise) =>
     /\ \A o \in Outputs : PathCount(o) = 1
     /\ Cardinality(Outputs) = EntropyCount
     /\ \A o \in Outputs : StructureOK(o)
\* C06: with uncapitalisable words the reported value is still a lower bound: no password has more than
\* |Paths| / EntropyCount paths
MinEntropyHolds ==
  (pc = "start" /\ Size > 0 /\ r.len >= 1 /\ TitlePremise) =>
     \A o \in Outputs : PathCount(o) * EntropyCount <= Cardinality(Paths)
=============================================================================
