CONSTANTS
  MaxN = 300
SPECIFICATION Spec
INVARIANT Bracket
CHECK_DEADLOCK FALSE
