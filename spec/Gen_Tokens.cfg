CONSTANTS
  MaxToks = 3
  MaxTokLen = 2
  MaxIdx = 4
  MaxStr = 3
  Bytes = {0, 1, 2, 3, 4, 200}
SPECIFICATION Spec
CHECK_DEADLOCK FALSE
