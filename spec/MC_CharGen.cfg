CONSTANTS
  Recipes <- MCRecipes
  MaxTrialsSet = {1, 2}
  FailRateOne = TRUE
  MaxLen = 2
SPECIFICATION Spec
INVARIANTS RetryNeverFavoursNorOverstates EveryValidStringReachable TypeOK OutValid NoOutputUnlessDone TrialsBounded ErrIff GenerousRecipeNeverRefused OneTuplePerString
PROPERTIES RefinesPickValidString PanicIsTerminal RejectDiscardsCandidate RecipeNeverWritten Terminates
CHECK_DEADLOCK FALSE
