CONSTANTS
  Objects = {o1, o2}
  Goroutines = {g1}
  Values = {v1, v2, v3}
  MaxCalls = 4
  MaxSets = 3
  PointerReceiver = TRUE
  CacheDerived = TRUE
  GlobalLock = FALSE
SPECIFICATION Spec
INVARIANTS ResultIsFunctionOfFields
PROPERTIES CallsLeaveFieldsUnchanged
CHECK_DEADLOCK FALSE
