"""Shared machinery of the wordlist checks (C04 C05 C06 C08 C10, parts of C13 C16): scenarios, wltree driver, WordTrace validation."""
import json, os, random, subprocess
import vlib
from vlib import Undecided


def o(s):
    return [ord(c) for c in s]


CAPITALISABLE = ["one", "two", "three", "kettő", "ábc", "ice-cream", "o'neil", "zebra", "łódź", "ñu", "polish", "größe", "x-ray-gun", "mcdonald", "'tis", ".net", "#tag", "(sic)",
                 # title forms with MORE bytes than the word (2 -> 3) and with FEWER (2 -> 1); words ending in what separators are made of
                 "ɐb", "ȿx", "ɥz", "ıx", "ſy", "co-", "mp3", "e.g.",
                 # letters after punctuation that is not ASCII (title-casing starts a new word only after a non-letter: U+2019 and the
                 # middle dot are not letters, so the next letter is capitalised; the inverted question mark likewise)
                 "o’brien", "¿qué", "paral·lel"]
UNCAP = ["4x", "Polish", "漢字", "-dash", "Łódź", "USA", "7"]
SCHEMES = ["none", "first", "all", "random", "one"]


def sep_variants(rng, uniform_only=False):
    v = [dict(sep="char", sepChar=[]), dict(sep="char", sepChar=o("-")), dict(sep="char", sepChar=o("¡¿")), dict(sep="SFNone", sepChar=[]),
         dict(sep="recipe", sepChar=[], sepRecipe=dict(len=1, allow=0, require=0, exclude=0, allowChars=o("-_"), requireSets=[], excludeChars=[])),
         dict(sep="recipe", sepChar=[], sepRecipe=dict(len=1, allow=0, require=0, exclude=0, allowChars=o("¡.;"), requireSets=[], excludeChars=[])),
         dict(sep="recipe", sepChar=[], sepRecipe=dict(len=2, allow=0, require=0, exclude=0, allowChars=o("ab"), requireSets=[], excludeChars=[])),
         dict(sep="recipe", sepChar=[], sepRecipe=dict(len=1, allow=0, require=0, exclude=0, allowChars=o("xx"), requireSets=[], excludeChars=[]))]
    v += [dict(sep="customlist", sepChar=[], sepVals=[[], o("-"), o("."), o("_")]), dict(sep="customlist", sepChar=[], sepVals=[o("·"), [], o("ab")])]
    v += [dict(sep="custom0", sepChar=[], sepRecipe=dict(len=1, allow=0, require=0, exclude=0, allowChars=o("xy"), requireSets=[], excludeChars=[]))]
    if not uniform_only:
        v += [dict(sep="recipe", sepChar=[], sepRecipe=dict(len=2, allow=0, require=0, exclude=0, allowChars=o("a"), requireSets=[o("1")], excludeChars=[])),
              dict(sep="recipe", sepChar=[], sepRecipe=dict(len=1, allow=0, require=4, exclude=4, allowChars=[], requireSets=[], excludeChars=[])),  # unsatisfiable: always ""
              dict(sep="recipe", sepChar=[], sepRecipe=dict(len=0, allow=4, require=0, exclude=0, allowChars=[], requireSets=[], excludeChars=[])),
              # refused for its failure rate under the default budget (success chance 0.068): every separator is ""
              dict(sep="recipe", sepChar=[], env="default", sepRecipe=dict(len=2, allow=2, require=12, exclude=0, allowChars=[], requireSets=[], excludeChars=[])),
              # a separator function next to a SeparatorChar: the function wins, also when it returns ""
              dict(sep="SFNone", sepChar=o("+")),
              dict(sep="recipe", sepChar=o("+"), sepRecipe=dict(len=1, allow=4, require=4, exclude=4, allowChars=[], requireSets=[], excludeChars=[]))]
    return v


def sep_count(sv):
    if sv["sep"] == "customlist":
        return len(sv["sepVals"])
    if sv["sep"] not in ("recipe", "custom0"):
        return 1
    r = sv["sepRecipe"]
    if r["allow"] or r["require"]:
        return 1 if sv.get("env") == "default" else 3
    a = len(set(r["allowChars"]) | {c for s in r["requireSets"] for c in s})
    return max(1, a ** max(r["len"], 0)) * (3 if r["requireSets"] else 1)


def words_list(rng, n, uncap=0, twins=False, dups=False):
    ws = rng.sample(CAPITALISABLE, n - uncap) + rng.sample(UNCAP, uncap)
    if twins and "polish" in ws and "Polish" not in ws:
        ws.append("Polish")
    elif twins:
        # a lower-case word with its title form; a word with an inner capital with ITS title form (lower-casing is not the inverse
        # of title-casing); an acronym next to its lower-case spelling (not twins: the title form of "usa" is "Usa")
        ws += rng.choice([["polish", "Polish"], ["mcDonald", "McDonald"], ["usa", "USA"], ["polish", "Polish"]])
    if dups:
        ws += [rng.choice(ws)]
    if rng.random() < 0.12:      # entries that differ only in surrounding white space are different words
        w = rng.choice(ws)
        ws += [w + " ", w + "\r"] if rng.random() < 0.5 else [" " + w, w + "\t"]
    rng.shuffle(ws)
    return ws


def tree_scen(rng, uniform_only=False, uncap_prob=0.0, budget=5000):
    for _ in range(100):
        n = rng.choice([2, 3, 3, 5, 4, 6, 7])
        L = rng.choice([1, 2, 2, 3])
        cap = rng.choice(SCHEMES + SCHEMES + ["bogus", "First", "ALL", " one", "Random", "none "])
        sv = rng.choice(sep_variants(rng, uniform_only))
        uc = 1 if rng.random() < uncap_prob else 0
        capf = {"random": 2 ** L, "one": L}.get(cap, 1)
        sc = sep_count(sv)
        est = (n ** L) * capf * (sc ** max(L - 1, 0)) * sc
        if est <= budget:
            break
    ws = words_list(rng, n, uncap=uc, twins=rng.random() < 0.15, dups=rng.random() < 0.3)
    wl = dict(words=[o(w) for w in ws], nolist=0, len=L, cap=cap)
    wl.update({k: v for k, v in sv.items() if k != "env"})
    mt, fr = (0, 0) if sv.get("env") == "default" else (rng.choice([1, 2]), 1)
    return dict(kind="wl", wl=wl, maxTrials=mt, failRateOne=fr, mode="tree", paths=0, maxLeaves=20000, tag="wl-tree", reps=0)


def directed_trees(rng):
    """Small cells that need a particular configuration: three words (two gaps) with a random separator function, a caller-written
    separator that claims no entropy, a separator function next to SeparatorChar."""
    out = []
    two = dict(len=1, allow=0, require=0, exclude=0, allowChars=o("xy"), requireSets=[], excludeChars=[])
    for sep in ("recipe", "custom0"):
        for cap in ("none", "one", "random"):
            wl = dict(words=[o(w) for w in rng.sample(CAPITALISABLE, 2)], nolist=0, len=3, cap=cap, sep=sep, sepChar=o("+") if cap == "one" else [], sepRecipe=two)
            out.append(dict(kind="wl", wl=wl, maxTrials=1, failRateOne=1, mode="tree", paths=0, maxLeaves=20000, tag="wl-directed", reps=0))
    for ws in (["4x", "one", "two", "three"], ["Polish", "one"], ["one", "two", "7"]):
        for cap in ("first", "one", "random", "all"):
            wl = dict(words=[o(w) for w in ws], nolist=0, len=2, cap=cap, sep="char", sepChar=o("-"))
            out.append(dict(kind="wl", wl=wl, maxTrials=1, failRateOne=1, mode="tree", paths=0, maxLeaves=20000, tag="wl-directed-uncap", reps=0))
    # separators and words made of characters that are not "printable" (NBSP, tab, zero-width and ideographic space): they are
    # separators/words like any other
    two_words = [o(w) for w in rng.sample(CAPITALISABLE, 2)]
    for sv in (dict(sep="char", sepChar=[0xA0]), dict(sep="char", sepChar=[9]), dict(sep="char", sepChar=[0x200B, 0x3000]),
               dict(sep="customlist", sepChar=[], sepVals=[[0x2009], o("-")]),
               dict(sep="recipe", sepChar=[], sepRecipe=dict(len=1, allow=0, require=0, exclude=0, allowChars=[0xA0, 0x2009], requireSets=[], excludeChars=[]))):
        wl = dict(words=two_words, nolist=0, len=3, cap=rng.choice(["none", "first"]))
        wl.update(sv)
        out.append(dict(kind="wl", wl=wl, maxTrials=1, failRateOne=1, mode="tree", paths=0, maxLeaves=20000, tag="wl-directed-nonprinting", reps=0))
    # a functional separator that is non-empty for one gap and empty for another, four words (token counts of both parities)
    for cap in ("none", "one"):
        wl = dict(words=[o("one"), o("two")], nolist=0, len=4, cap=cap, sep="customlist", sepChar=[], sepVals=[[], o("-")])
        out.append(dict(kind="wl", wl=wl, maxTrials=1, failRateOne=1, mode="tree", paths=0, maxLeaves=20000, tag="wl-directed-mixed-gaps", reps=0))
    # a word and a separator longer than a token index can describe (255 characters): still ONE atom, ONE separator token each
    for sepc in (o("-") * 256, [0x2192] * 300, o("-")):
        wl = dict(words=[o("w") * 255, [0xE9] * 256 + o("x"), o("q") * 300, o("one")], nolist=0, len=2, cap="first", sep="char", sepChar=sepc)
        out.append(dict(kind="wl", wl=wl, maxTrials=1, failRateOne=1, mode="tree", paths=0, maxLeaves=20000, tag="wl-directed-long-tokens", reps=0))
    wl = dict(words=[o("one"), [0xA0], [0x200B, 0x200B], o("two")], nolist=0, len=2, cap="none", sep="char", sepChar=o("-"))
    out.append(dict(kind="wl", wl=wl, maxTrials=1, failRateOne=1, mode="tree", paths=0, maxLeaves=20000, tag="wl-directed-nonprinting", reps=0))
    return out


def run_scenarios(ctx, scenarios, name, shards=None, stderr_path=None):
    shards = shards or min(vlib.NCPU, max(1, len(scenarios) // 3))
    scen = ctx.path("wscen-%s.ndjson" % name)
    with open(scen, "w") as f:
        for i, s in enumerate(scenarios):
            if i % 4 == 1 and "prefault" not in s:      # every fourth cell comes after a call whose random source failed (recovered)
                s = dict(s, prefault=1 + (i // 4) % 6)
            f.write(json.dumps(s) + "\n")
    drv = ctx.build_harness()
    procs, files = [], []
    for k in range(shards):
        out = ctx.path("wtrace-%s-%d.ndjson" % (name, k))
        files.append(out)
        procs.append(ctx.spawn([drv, "wltree", "-seed", str(ctx.seed), "-scen", scen, "-out", out, "-shard", str(k), "-shards", str(shards)], stderr_path=stderr_path))
    cells = leaves = 0
    for p in procs:
        rc_, o_, e = ctx.wait(p)
        if p.returncode == 5:
            ctx.partial = "a library call did not return within the per-recipe deadline; the rest of that shard was skipped"
            try:
                idx = json.loads([l for l in (o if False else o_).strip().split("\n") if l.startswith("{")][-1]).get("timeout")
                ctx.partial += " (scenario %s: %s)" % (idx, json.dumps(scenarios[idx])[:400])
            except Exception:
                pass
        elif p.returncode != 0:
            raise Undecided("wltree driver failed: " + (e or o_)[-1500:])
        last = [l for l in o_.strip().split("\n") if l.startswith("{")]
        if last:
            j = json.loads(last[-1])
            cells += j["cells"]
            leaves += j["leaves"]
    return [f for f in files if os.path.getsize(f) > 0], cells, leaves


def validate(ctx, files):
    verdicts = ctx.validate_many("WordTrace", files)
    return verdicts, sum(v["extra"]["decided"] for v in verdicts)


def text(cps):
    try:
        return "".join(chr(c) if c < 1114112 else "\\x%02x" % (c - 1114112) for c in cps)
    except Exception:
        return str(cps)


def describe_wl(l, f, why):
    cell = ev = None
    with open(f) as fh:
        for i, line in enumerate(fh, 1):
            if line.startswith('{"op":"wcell"'):
                cell = json.loads(line)
            if i == l:
                ev = json.loads(line)
                break
    rec = None
    if cell:
        rec = dict(words=[text(w) for w in cell["wl"]["words"]], recipe={k: cell["wl"].get(k) for k in ("len", "cap", "sep", "sepChar", "sepRecipe", "nolist")},
                   kept=[text(w) for w in cell["kept"]], uncap=cell["uncap"], size=cell["size"], ent=cell["ent"], maxTrials=cell["maxTrials"], tag=cell["tag"])
    if ev and ev.get("op") == "wleaf":
        ev = dict(draws=ev["d"], kind=ev["res"]["kind"], tokens=[(t["t"], text(t["v"])) for t in ev["res"]["toks"]], err=ev["res"]["msg"])
    else:
        ev = "cell-level"
    return dict(kind="wl", why=why, cell=rec, event=ev)


def bounds_seen(files, limit=100000):
    seen, n = set(), 0
    for f in files:
        with open(f) as fh:
            for line in fh:
                if line.startswith('{"op":"wleaf"'):
                    n += 1
                    if n > limit:
                        return seen
                    for d in json.loads(line)["d"]:
                        seen.add(d[0])
    return seen


def count_cells(files, pred):
    n = 0
    for f in files:
        with open(f) as fh:
            for line in fh:
                if line.startswith('{"op":"wcell"') and pred(json.loads(line)):
                    n += 1
    return n


def c13_part(ctx, rng, quick):
    """Wordlist side of C13: recipes without / with empty lists, non-positive lengths, failing separator recipes."""
    scen = []
    for L in (-2, 0, 1, 3):
        for nolist in (1, 2):
            scen.append(dict(kind="wl", wl=dict(words=[], nolist=nolist, len=L, cap=rng.choice(SCHEMES), sep="char", sepChar=o("-")), maxTrials=0,
                             failRateOne=0, mode="paths", paths=3, maxLeaves=0, tag="no-list", reps=0))
        scen.append(dict(kind="wl", wl=dict(words=[o("one"), o("two"), o("three")], nolist=0, len=L, cap=rng.choice(SCHEMES), sep="SFDigits1", sepChar=[]),
                         maxTrials=0, failRateOne=0, mode="paths", paths=3, maxLeaves=0, tag="lengths", reps=0))
    for cap in SCHEMES + ["bogus"]:
        for L in (0, -1, -7):
            for nolist in (0, 1):
                scen.append(dict(kind="wl", wl=dict(words=[o("one"), o("two")] if nolist == 0 else [], nolist=nolist, len=L, cap=cap, sep="char", sepChar=o("-")),
                                 maxTrials=0, failRateOne=0, mode="paths", paths=2, maxLeaves=0, tag="non-positive-length", reps=0))
    for sv in sep_variants(rng)[4:]:
        for mt, fr in ((0, 0), (2, 1)):
            wl = dict(words=[o("one"), o("two"), o("three")], nolist=0, len=3, cap="one")
            wl.update(sv)
            scen.append(dict(kind="wl", wl=wl, maxTrials=mt, failRateOne=fr, mode="paths", paths=5, maxLeaves=0, tag="separator-recipes", reps=0))
    # a list with an empty entry (NewWordList keeps it): whatever Generate does with it, it is an error or a password, never a panic
    for cap in SCHEMES:
        for ws in (["", "one"], ["one", "", "two"], [""]):
            scen.append(dict(kind="wl", wl=dict(words=[o(w) for w in ws], nolist=0, len=2, cap=cap, sep="char", sepChar=o("-")), maxTrials=0,
                             failRateOne=0, mode="tree", paths=0, maxLeaves=2000, tag="empty-word", reps=0))
    files, cells, leaves = run_scenarios(ctx, scen, "c13wl", shards=4)
    verdicts, _ = validate(ctx, files)
    ctx.evaluations += leaves
    ctx.cover.update(wl_cells=cells, wl_generate_runs=leaves)
    ctx.absorb(verdicts, files, describe_wl)


def line_scen(words, L, cap, sep, line, tag):
    wl = dict(words=[o(w) for w in words], nolist=0, len=L, cap=cap)
    wl.update(sep)
    return dict(kind="wl", wl=wl, maxTrials=0, failRateOne=0, mode="line", line=line, paths=0, maxLeaves=0, tag=tag, reps=0)


def line_scenarios(rng, quick, shipped=None):
    """Complete lines: every value of one draw, all other draws fixed - long passwords (capital position / coin of a late word),
    a large list (every word index), a sparse-capitalisable list; thorough: every index of both shipped lists."""
    hy = dict(sep="char", sepChar=o("-"))
    base = ["one", "two", "three", "zebra", "kettő"]
    out = []
    for L in ((65, 80) if quick else (64, 65, 80, 128, 200)):
        out.append(line_scen(base, L, "one", hy, 0, "line-one-position"))
        out.append(line_scen(base, L, "random", hy, L - 1, "line-random-last-coin"))
        out.append(line_scen(base, L, "random", hy, 64 if L > 64 else L - 2, "line-random-coin-64"))
        out.append(line_scen(base, L, "all", hy, L + 3 if False else 3, "line-all-word"))
    big = ["w%da" % i if i % 7 else "v-%d-x" % i for i in range(600)] + ["alpha", "omega", "größe", "ñandú", "o'neil", "ice-cream"]
    out.append(line_scen(big, 2, "first", dict(sep="SFDigits1", sepChar=[]), 0, "line-606-words"))
    out.append(line_scen(big, 3, "one", hy, 2, "line-606-words-second"))
    sparse = [str(1000 + i) for i in range(150)] + ["alpha"]
    out.append(line_scen(sparse, 1, "all", hy, 0, "line-sparse-capitalisable"))
    out.append(line_scen(sparse, 2, "first", hy, 0, "line-sparse-capitalisable"))
    if shipped:
        for name, ws in shipped.items():
            out.append(line_scen(ws, 2, "none", hy, 0, "line-shipped-" + name))
            out.append(line_scen(ws, 2, "all", dict(sep="SFDigits1", sepChar=[]), 1, "line-shipped-%s-second-word" % name))
    return out


def shipped_lists(ctx):
    aux = ctx.path("aux-lists.ndjson")
    ctx.drv("lists", "-out", aux)
    return {e["name"]: ["".join(chr(c) for c in w) for w in e["words"]] for e in vlib.read_ndjson(aux)}


def run_sequences(ctx, seqs, name):
    """Each sequence of scenarios runs in its own fresh process, in order."""
    files, cells, leaves = [], 0, 0

    def one(k):
        return run_scenarios(ctx, seqs[k], "%s-seq%d" % (name, k), shards=1)
    for f, c, l in vlib.parallel(one, range(len(seqs)), workers=vlib.NCPU):
        files += f
        cells += c
        leaves += l
    return files, cells, leaves


def ctor_collision_sequences():
    """Input lists that a process-wide memo of NewWordList keyed on a content fingerprint could confuse (same number of entries and
    same concatenation, different word boundaries), constructed one after the other in ONE process, in both orders."""
    pairs = [(["ab", "c"], ["a", "bc"]), (["ab", "c"], ["a", "b", "c"]), (["onetwo"], ["one", "two"]), (["aA", "b"], ["a", "A", "b"]), (["a", "Ab"], ["aA", "b"]), (["zaz", "a", "zb"], ["za", "za", "zb"]), (["Polishpo", "lish", "five"], ["Polish", "polish", "five"]),
             (["one", "two"], ["on", "etwo"]), (["x y", "z"], ["x", "y z"]),
             # what one construction removed must not be remembered by the next one
             (["polish", "Polish", "one"], ["Polish", "two"]), (["usa", "Usa", "x"], ["Usa"]), (["a", "a", "b"], ["a", "c"])]
    mk = lambda ws: dict(kind="wl", wl=dict(words=[o(w) for w in ws], nolist=0, len=2, cap="first", sep="char", sepChar=o("-")), maxTrials=0, failRateOne=0,
                         mode="tree", paths=0, maxLeaves=500, tag="ctor-collision", reps=0)
    seqs = []
    for a, b in pairs:
        seqs.append([mk(a), mk(b), mk(a)])
        seqs.append([mk(b), mk(a), mk(b)])
    return seqs


def marg_scenarios():
    """Recipes whose per-position choices are sampled from a pseudo-random byte stream (MargTrace): list sizes that are and are not
    powers of two at lengths beyond what one 32-bit word can serve, a large list, capital positions of `one' and `random'."""
    out = []
    hy = dict(sep="char", sepChar=o("-"))
    def wl(ws, L, cap, sep, tag):
        d = dict(words=[o(w) for w in ws], nolist=0, len=L, cap=cap)
        d.update(sep)
        return dict(kind="wl", wl=d, maxTrials=0, failRateOne=0, mode="paths", paths=0, maxLeaves=0, tag=tag, reps=0)
    names = ["w%04dq" % i for i in range(1024)]
    for k, L in ((2, 40), (4, 20), (8, 12), (16, 9), (32, 8), (5, 12), (7, 10)):
        out.append(wl(names[:k], L, "none", hy, "marg-%d-words" % k))
    out.append(wl(names[:8], 12, "one", hy, "marg-one"))
    out.append(wl(names[:2], 40, "random", hy, "marg-random"))
    out.append(wl(names[:6], 12, "random", dict(sep="SFDigits1", sepChar=[]), "marg-random-digits"))
    out.append(wl(names, 5, "none", hy, "marg-1024-words"))
    out.append(wl(names[:606], 4, "first", dict(sep="SFDigits1", sepChar=[]), "marg-606-words"))
    return out


def run_marg(ctx, scenarios, name, prop):
    """Driver `marg` (sharded) + MargTrace: only the verdicts of the calling check's own property count."""
    sf = ctx.path("marg-scen-%s.ndjson" % name)
    with open(sf, "w") as f:
        for s in scenarios:
            f.write(json.dumps(s) + "\n")
    drv = ctx.build_harness()
    shards = min(vlib.NCPU, len(scenarios))
    procs, files = [], []
    for k in range(shards):
        out = ctx.path("marg-%s-%d.ndjson" % (name, k))
        files.append(out)
        procs.append(ctx.spawn([drv, "marg", "-seed", str(ctx.seed), "-scen", sf, "-out", out, "-shard", str(k), "-shards", str(shards),
                                "-n", str(20000 if ctx.tier == "quick" else 400000)]))
    for p in procs:
        rc_, o_, e = ctx.wait(p)
        if p.returncode != 0:
            raise Undecided("marg driver failed: " + (e or o_)[-800:])
    files = [f for f in files if os.path.getsize(f) > 0]
    verdicts = ctx.validate_many("MargTrace", files)
    n = sum(v["extra"]["marg"] for v in verdicts)
    ctx.cover["sampled_marginals"] = dict(recipes=n, samples_each=20000 if ctx.tier == "quick" else 400000, resolution="a bin of probability 1/8 must be off by more than 31 % (quick) / 7 % (thorough) of its expectation to be reported", rule="Chernoff bound, t = 80: a false report has probability below 1e-30")
    ctx.absorb(verdicts, files, lambda l, f, why: dict(kind="marginals", why=why, event={k: v for k, v in vlib.nth_line(f, l).items() if k not in ("pair", "hist")},
                                                      scenario=[s for s in scenarios if s["tag"] == vlib.nth_line(f, l).get("tag")][:1]))
    return n
