"""C18 - generated secrets leave the library only through the returned Password."""
import json, os, random, subprocess
import vlib
from vlib import Undecided
from checks import wlfam

o = wlfam.o
GREEK = [0x3B1 + i for i in range(12)]
CJK = [0x6F22, 0x5B57, 0x6B63, 0x78BA]
PUA = [0xE000 + i for i in range(40)]


def scenarios(rng, n):
    out = []
    for i in range(n):
        k = i % 6
        if k == 0:   # distinctive alphabet with requirements: retries, possibly exhausted budget
            alpha = rng.sample(GREEK + CJK, rng.randint(3, 8))
            shared = rng.choice(alpha)
            c = dict(len=rng.randint(4, 9), allow=0, require=0, exclude=0, allowChars=alpha,
                     requireSets=[rng.sample(alpha, 1), rng.sample(PUA, 2)] + ([[shared, rng.choice(PUA)], [shared, rng.choice(alpha)]] if rng.random() < 0.5 else []), excludeChars=[])
            out.append(dict(kind="char", char=c, maxTrials=rng.choice([1, 2, 5, 0]), failRateOne=1, mode="paths", paths=4, maxLeaves=0, tag="distinctive-retries", reps=0))
        elif k == 1:  # ASCII classes, default budget; first path exhausts all 200 attempts
            c = dict(len=rng.randint(4, 12), allow=rng.choice([15, 7, 3]), require=rng.choice([4, 8, 12, 5]), exclude=rng.choice([0, 16]), allowChars=[],
                     requireSets=[], excludeChars=[])
            out.append(dict(kind="char", char=c, maxTrials=0, failRateOne=rng.choice([0, 1]), mode="paths", paths=3, maxLeaves=0, tag="ascii-classes", reps=0))
        elif k == 2:  # refused / impossible recipes (diagnostics are emitted)
            c = rng.choice([dict(len=6, allow=4, exclude=4), dict(len=0, allow=15), dict(len=2, allow=2, require=12), dict(len=5, allowChars=o("ab"), excludeChars=o("ab")),
                            dict(len=3, allowChars=rng.sample(GREEK, 3), requireSets=[rng.sample(PUA, 1)], excludeChars=[])])
            base = dict(len=1, allow=0, require=0, exclude=0, allowChars=[], requireSets=[], excludeChars=[])
            base.update(c)
            out.append(dict(kind="char", char=base, maxTrials=0, failRateOne=0, mode="paths", paths=2, maxLeaves=0, tag="refused", reps=0))
        else:  # word lists of distinctive words, with duplicates and twins (duplicate notice), all schemes, separators
            words = ["".join(chr(c) for c in rng.sample(PUA + GREEK, rng.randint(3, 6))) for _ in range(rng.choice([1, 1, 2, 3, 4, 5, 6, 7]))]
            if rng.random() < 0.6:
                words += [rng.choice(words)] * rng.randint(1, 3)
            if rng.random() < 0.4:
                words += ["polish", "Polish", "secretword"]
            if rng.random() < 0.25:   # an empty entry (NewWordList keeps it; a draw may land on it)
                words += [""]
            if rng.random() < 0.15:   # a word too long for the token index (> 255 characters)
                words = ["".join(chr(c) for c in [rng.choice(PUA) for _ in range(300)])] + words[:1]
            sep = rng.choice([dict(sep="char", sepChar=[0x2192]), dict(sep="char", sepChar=[]), dict(sep="SFDigits1", sepChar=[]),
                              dict(sep="recipe", sepChar=[], sepRecipe=dict(len=2, allow=0, require=0, exclude=0, allowChars=rng.sample(CJK, 3), requireSets=[], excludeChars=[])),
                              dict(sep="recipe", sepChar=[], sepRecipe=dict(len=1, allow=4, require=4, exclude=4, allowChars=[], requireSets=[], excludeChars=[])),
                              # a separator function next to a SeparatorChar (the function wins; nothing is said about either)
                              dict(sep="recipe", sepChar=[0x21D2], sepRecipe=dict(len=3, allow=0, require=0, exclude=0, allowChars=rng.sample(CJK + GREEK, 4), requireSets=[], excludeChars=[])),
                              dict(sep="custom0", sepChar=o("+"), sepRecipe=dict(len=2, allow=0, require=0, exclude=0, allowChars=rng.sample(CJK, 3), requireSets=[], excludeChars=[])),
                              dict(sep="SFDigits2", sepChar=[0x2192, 0x2192]),
                              # caller-written separator functions whose entropy statement is NaN, infinite or negative (whatever the library
                              # thinks of the number, it says nothing about the password)
                              dict(sep=rng.choice(["customnan", "custominf", "customneg"]), sepChar=[], sepVals=[rng.sample(CJK + GREEK, 3)]),
                              # a caller-written separator that is random but claims no entropy
                              dict(sep="custom0", sepChar=[], sepRecipe=dict(len=3, allow=0, require=0, exclude=0, allowChars=rng.sample(CJK + GREEK, 4), requireSets=[], excludeChars=[]))])
            wl = dict(words=[o(w) for w in words], nolist=0, len=rng.randint(1, 5), cap=rng.choice(wlfam.SCHEMES))
            wl.update(sep)
            out.append(dict(kind="wl", wl=wl, maxTrials=0, failRateOne=0, mode="paths", paths=4, maxLeaves=0, tag="distinctive-words", reps=0))
    # more distinct words than a bounded per-process table may hold (1024, 4096): 3000 distinctive words, all capitalised, long passwords
    big = ["".join(chr(c) for c in (PUA[i % 40], GREEK[(i // 40) % 12], PUA[(i * 7) % 40], 0x61 + i % 26, PUA[(i // 480) % 40])) for i in range(3000)]
    for cap in ("all", "random"):
        wl = dict(words=[o(w) for w in big], nolist=0, len=650, cap=cap, sep="char", sepChar=[0x2192])
        out.append(dict(kind="wl", wl=wl, maxTrials=0, failRateOne=0, mode="paths", paths=4, maxLeaves=0, tag="many-distinct-words", reps=0))
    return out


def run(ctx):
    quick = ctx.tier == "quick"
    rng = random.Random(ctx.seed)
    n = 300 if quick else 20000
    ctx.rule = ("%d seeded recipes x 2-4 forced/seeded paths on the REAL library with fds 1 and 2 captured around NewWordList, Alphabet, Entropy, "
                "SuccessProbability and Generate: distinctive (Greek/CJK/private-use) alphabets with requirements (retried and exhausted attempt budgets), ASCII "
                "class recipes on the default budget incl. the all-attempts-fail path, refused and impossible recipes (which emit diagnostics), word lists of "
                "distinctive words with duplicates and twins, all schemes, constant/preset/custom/failing separators; non-trivial = a run with secrets "
                "(>= 1 candidate/word) AND captured output or a rejected candidate" % n)
    ctx.model_check("Emit", "MC_Emit.cfg", "only DupNotice/ImpossibleAlphabetNotice/RoundingWarning emit, with numeric payloads; secrets leave only by return",
                    workers=4)
    scen = scenarios(rng, n)
    sf = ctx.path("emit-scen.ndjson")
    with open(sf, "w") as f:
        for s in scen:
            f.write(json.dumps(s) + "\n")
    drv = ctx.build_harness()
    shards = vlib.NCPU
    procs, files = [], []
    for k in range(shards):
        out = ctx.path("emit-%d.ndjson" % k)
        files.append(out)
        procs.append(ctx.spawn([drv, "emit", "-seed", str(ctx.seed), "-scen", sf, "-out", out, "-shard", str(k), "-shards", str(shards)]))
    for p in procs:
        rc_, o_, e = ctx.wait(p)
        if p.returncode != 0:
            raise Undecided("emit driver failed: " + (e or o_)[-800:])
    # behaviour the environment can switch on: the same capture runs with every environment variable the source names, set
    for vi, extra in enumerate(ctx.env_variants()):
        sub = ctx.path("emit-scen-env.ndjson")
        with open(sub, "w") as f:
            for s_ in scen[:120]:
                f.write(json.dumps(s_) + "\n")
        out = ctx.path("emit-env-%d.ndjson" % vi)
        p = ctx.spawn([drv, "emit", "-seed", str(ctx.seed + vi), "-scen", sub, "-out", out, "-shard", "0", "-shards", "1"], env=dict(ctx.env, **extra))
        rc_, o_, e = ctx.wait(p)
        if p.returncode != 0:
            raise Undecided("emit driver failed under %s: %s" % (extra, (e or o_)[-800:]))
        files.append(out)
    files = [f for f in files if os.path.getsize(f) > 0]
    verdicts = ctx.validate_many("EmitTrace", files)
    runs = sum(v["extra"]["runs"] for v in verdicts)
    nt = 0
    kinds = {}
    for f in files:
        for e in vlib.read_ndjson(f):
            if e["secrets"] and (e["out"] or e["rejected"] > 1):
                nt += 1
            kinds[e["res"]] = kinds.get(e["res"], 0) + 1
    ctx.evaluations = runs
    ctx.nontrivial = nt
    ctx.cover.update(captured_runs=runs, runs_with_output=sum(v["extra"]["withOutput"] for v in verdicts), secrets_searched=sum(v["extra"]["secrets"] for v in verdicts),
                     outcomes=kinds)
    ctx.sample(vlib.nth_line(files[0], 1))
    ctx.absorb(verdicts, files, lambda l, f, why: dict(kind="emit", why=why, event=vlib.nth_line(f, l)))
    ctx.assumptions += ["output reaches file descriptors 1/2 (a logger the library itself redirected to a file would be missed)",
                        "ASCII recipes: only candidates of >= 4 and tokens of >= 3 characters are searched as substrings"]
    return "TLC searches the text captured from fds 1/2 of %d real runs for every secret of the run (password, rejected candidates, words, separators, distinctive characters)" % runs
