"""C15 - calls are pure: results reflect the recipe's current fields, not call history."""
import json, os, random, subprocess
import vlib
from vlib import Undecided
from checks import charfam, wlfam

o = wlfam.o
CLASSES = {1: "ABCDEFGHIJKLMNOPQRSTUVWXYZ", 2: "abcdefghijklmnopqrstuvwxyz", 4: "0123456789", 8: "!@.-_*", 16: "0O1Il5S"}


def char_history(rng, length):
    nobj = rng.choice([1, 2, 2])
    objs = [dict(len=rng.randint(1, 6), allow=rng.choice([4, 12, 15, 3, 0]), require=rng.choice([0, 4, 8]), exclude=rng.choice([0, 16]),
                 allowChars=o(rng.choice(["", "abc", "é"])), requireSets=[o(x) for x in rng.sample(["a b", "357", "xy"], rng.randint(0, 2))], excludeChars=[])
            for _ in range(nobj)]
    steps = []
    for _ in range(length):
        k = rng.randrange(nobj)
        x = rng.random()
        if x < 0.42:
            steps.append(dict(op="call", obj=k, paths=rng.choice([1, 2, 3])))
        elif x < 0.45:
            steps.append(dict(op="fault", obj=k, idx=rng.randint(1, 6), ival=rng.randrange(4)))
        elif x < 0.55:
            steps.append(dict(op="set", obj=k, field="len", ival=rng.choice([0, 1, 2, 5, 9])))
        elif x < 0.65:
            steps.append(dict(op="set", obj=k, field=rng.choice(["allow", "require", "exclude"]), ival=rng.choice([0, 1, 2, 4, 8, 16, 12, 15, 31])))
        elif x < 0.72:
            steps.append(dict(op="set", obj=k, field="allowChars", cps=o(rng.choice(["", "ab", "éβ", "0O"]))))
        elif x < 0.82:
            # exclude every member of a class, or nothing
            cls = rng.choice([1, 2, 4, 8, 16])
            steps.append(dict(op="set", obj=k, field="excludeChars", cps=o(rng.choice(["", CLASSES[cls], "a", "35", "b "]))))
        elif x < 0.9:
            steps.append(dict(op="set", obj=k, field="requireSets", sets=[o(s) for s in rng.choice([["a b"], ["a", "b"], ["357", "7x"], [], ["ab", "ab"], ["!@.-_*"]])]))
        elif x < 0.95:
            steps.append(dict(op="setelem", obj=k, idx=0, cps=o(rng.choice(["x", "a b", "9"]))))
        else:
            steps.append(dict(op="share", obj=k, **{"from": rng.randrange(nobj)}))
    steps.append(dict(op="call", obj=0, paths=2))
    return dict(kind="chist", objs=objs, steps=steps, maxTrials=0, failRateOne=rng.choice([0, 1]), tag="seeded")


def directed_char():
    call = lambda k: dict(op="call", obj=k, paths=2)
    h = []
    # same fields except where RequireSets is split at a blank
    h.append(dict(kind="chist", objs=[dict(len=2, allow=2, requireSets=[o("a b")]), dict(len=2, allow=2, requireSets=[o("a"), o("b")])],
                  steps=[call(0), call(1), call(0), dict(op="set", obj=0, field="requireSets", sets=[o("a"), o("b")]), call(0)], maxTrials=0, failRateOne=0, tag="split-at-blank"))
    # a required class entirely excluded, then the same class required elsewhere / exclusion lifted
    h.append(dict(kind="chist", objs=[dict(len=3, allow=15, require=8, excludeChars=o("!@.-_*")), dict(len=3, allow=3, require=8)],
                  steps=[call(0), call(1), dict(op="set", obj=0, field="excludeChars", cps=[]), call(0), call(1)], maxTrials=0, failRateOne=1, tag="excluded-class"))
    # caller's RequireSets element shares characters with ExcludeChars; then the exclusion is lifted
    h.append(dict(kind="chist", objs=[dict(len=4, allow=2, requireSets=[o("abc"), o("xyz")], excludeChars=o("ab")), dict(len=4, allow=2)],
                  steps=[call(0), dict(op="share", obj=1, **{"from": 0}), call(1), dict(op="set", obj=0, field="excludeChars", cps=[]), call(0), call(1)],
                  maxTrials=0, failRateOne=1, tag="shared-slice"))
    # two recipes use overlapping sub-slices of one caller-owned table (spare capacity behind the shorter one)
    h.append(dict(kind="chist", objs=[dict(len=3, allow=2, allowChars=o("+-")), dict(len=3, allow=2)],
                  steps=[dict(op="sharetable", obj=0, idx=2, sets=[o("abc"), o("123"), o("XYZ")], **{"from": 1}), call(1), call(0), call(1), call(0)],
                  maxTrials=0, failRateOne=1, tag="shared-table"))
    # field changes must be honoured by the very next call
    h.append(dict(kind="chist", objs=[dict(len=5, allow=4)],
                  steps=[call(0), dict(op="set", obj=0, field="allow", ival=2), call(0), dict(op="set", obj=0, field="len", ival=2), call(0),
                         dict(op="set", obj=0, field="require", ival=4), call(0), dict(op="set", obj=0, field="exclude", ival=4), call(0)],
                  maxTrials=0, failRateOne=1, tag="set-then-call"))
    # recipes of one "shape" (length, number of merely-allowed characters, sizes of the required sets) with different overlaps, also
    # reached by a field update on one object
    for a, b in (([o("ab"), o("cd")], [o("ab"), o("bc")]), ([o("ab"), o("bc")], [o("ab"), o("cd")]), ([o("ab"), o("cd"), o("ef")], [o("ab"), o("bc"), o("ca")])):
        h.append(dict(kind="chist", objs=[dict(len=3, allowChars=o("xyz"), requireSets=a), dict(len=3, allowChars=o("xyz"), requireSets=b)],
                      steps=[call(0), call(1), call(0), dict(op="set", obj=0, field="requireSets", sets=b), call(0), dict(op="set", obj=1, field="requireSets", sets=a), call(1)],
                      maxTrials=0, failRateOne=1, tag="same-shape"))
    # two recipes that are refused for different failure probabilities, then the first again: each error is its own call's
    cjk = lambda a, b: [0x4E00 + i for i in range(a, b)]
    h.append(dict(kind="chist", objs=[dict(len=1, allowChars=cjk(1, 31), requireSets=[cjk(0, 1)]), dict(len=1, allowChars=cjk(1, 50), requireSets=[cjk(0, 1)]),
                                      dict(len=0, allow=4)],
                  steps=[call(0), call(1), call(0), call(2), call(1), call(0)], maxTrials=0, failRateOne=0, tag="refused-twice"))
    # a call whose random source fails (at the first, a later, the last read; after 0-3 bytes) is recovered by the caller: the calls after
    # it behave as if it had never been made
    for at, got in ((1, 0), (1, 2), (2, 0), (3, 3), (7, 1)):
        h.append(dict(kind="chist", objs=[dict(len=4, allow=6, require=4), dict(len=3, allowChars=o("abc"))],
                      steps=[call(0), call(1), dict(op="fault", obj=0, idx=at, ival=got), call(0), call(1), dict(op="fault", obj=1, idx=1, ival=got), call(1), call(0)],
                      maxTrials=0, failRateOne=1, tag="call-after-failed-call"))
    return h


def directed_wl():
    words = [o(w) for w in ("one", "two", "three", "kettő")]
    call = lambda k: dict(op="call", obj=k, paths=2)
    h = []
    for at, got in ((1, 0), (2, 3), (4, 1)):
        h.append(dict(kind="whist", words=words, wobjs=[dict(words=[], nolist=0, len=3, cap="random", sep="SFDigits1", sepChar=[]),
                                                        dict(words=[], nolist=0, len=2, cap="one", sep="char", sepChar=o("-"))],
                      steps=[call(0), call(1), dict(op="fault", obj=0, idx=at, ival=got), call(0), call(1)], maxTrials=0, failRateOne=0, tag="wl-call-after-failed-call"))
    return h


def nested_wl():
    """A wordlist recipe generated from inside a chain of 3, 17, 18 and 40 other Generate calls (separator functions that generate)."""
    words = [o(w) for w in ("one", "two", "three", "kettő")]
    call = lambda k: dict(op="call", obj=k, paths=2)
    h = []
    for sep in (dict(sep="char", sepChar=o("-")), dict(sep="SFDigits1", sepChar=[])):
        ob = dict(words=[], nolist=0, len=3, cap="first")
        ob.update(sep)
        h.append(dict(kind="whist", words=words, wobjs=[ob], steps=[call(0)] + [dict(op="nest", obj=0, idx=d) for d in (3, 17, 18, 40)] + [call(0)],
                      maxTrials=0, failRateOne=0, tag="wl-nested-calls"))
    return h


def wl_history(rng, length):
    words = [o(w) for w in rng.sample(wlfam.CAPITALISABLE + wlfam.UNCAP, rng.randint(2, 6))]
    if rng.random() < 0.25:
        words.append([])     # an empty entry is legal input; whatever Generate does with it, the list itself must stay as it is
    nobj = rng.choice([1, 2])
    objs = [dict(words=[], nolist=0, len=rng.randint(1, 4), cap=rng.choice(wlfam.SCHEMES), sep="char", sepChar=o(rng.choice(["", "-", "¡"]))) for _ in range(nobj)]
    steps = []
    for _ in range(length):
        k = rng.randrange(nobj)
        x = rng.random()
        if x < 0.5:
            steps.append(dict(op="call", obj=k, paths=rng.choice([1, 2])))
        elif x < 0.62:
            steps.append(dict(op="set", obj=k, field="len", ival=rng.choice([0, 1, 2, 3, 5])))
        elif x < 0.78:
            steps.append(dict(op="set", obj=k, field="cap", sval=rng.choice(wlfam.SCHEMES + ["bogus"])))
        elif x < 0.88:
            steps.append(dict(op="set", obj=k, field="sepChar", cps=o(rng.choice(["", "-", "¡", "__"]))))
        else:
            sep = rng.choice(["char", "SFDigits1", "SFDigits2", "SFSymbols", "SFNone", "recipe"])
            st = dict(op="set", obj=k, field="sep", sep=sep)
            if sep == "recipe":
                st["sepRecipe"] = dict(len=rng.choice([1, 2]), allow=0, require=0, exclude=0, allowChars=o(rng.choice(["xy", "abc"])),
                                       requireSets=rng.choice([[], [], [o("y")], [o("1")]]), excludeChars=[])
            steps.append(st)
    steps.append(dict(op="call", obj=0, paths=2))
    return dict(kind="whist", words=words, wobjs=objs, steps=steps, maxTrials=0, failRateOne=0, tag="seeded-wl")


def tlc_histories(ctx, rng, n):
    """spec -> code: every history of <= 3 steps over two recipes from Gen_Hist.tla (sampled in the quick tier)."""
    out = ctx.path("gen-hist.ndjson")
    ctx.tlc("Gen_Hist", "Gen_Hist.cfg", env={"VERIF_GEN_OUT": out}, tag="gen-hist")
    ctx.states -= 1
    hs = vlib.read_ndjson(out)
    total = len(hs)
    rng.shuffle(hs)
    res = []
    for h in hs[:n]:
        objs = [dict(len=2, allow=4, require=0, exclude=0, allowChars=o("ab "), requireSets=[o("a b")], excludeChars=[]),
                dict(len=2, allow=4, require=0, exclude=0, allowChars=o("ab "), requireSets=[o("a"), o("b")], excludeChars=[])]
        steps = list(h["steps"]) + [dict(op="call", obj=0, paths=2), dict(op="call", obj=1, paths=2)]
        limited = any(st["op"] == "setlimits" for st in steps)      # the refusal decision only exists under the default failure limit
        res.append(dict(kind="chist", objs=objs, steps=steps, maxTrials=0, failRateOne=0 if limited else 1, tag="tlc-history-limits" if limited else "tlc-history"))
    return res, total


def run_hist(ctx, hists, name):
    sf = ctx.path("hist-%s.ndjson" % name)
    with open(sf, "w") as f:
        for h in hists:
            f.write(json.dumps(h) + "\n")
    drv = ctx.build_harness()
    shards = min(vlib.NCPU, max(1, len(hists) // 2))
    procs, cf, wf = [], [], []
    for k in range(shards):
        oc, ow = ctx.path("histc-%s-%d.ndjson" % (name, k)), ctx.path("histw-%s-%d.ndjson" % (name, k))
        cf.append(oc)
        wf.append(ow)
        procs.append(ctx.spawn([drv, "hist", "-seed", str(ctx.seed), "-scen", sf, "-outc", oc, "-outw", ow, "-shard", str(k), "-shards", str(shards)]))
    for p in procs:
        rc_, o_, e = ctx.wait(p)
        if p.returncode != 0:
            raise Undecided("hist driver failed: " + (e or o_)[:1200] + "\n...\n" + (e or o_)[-1500:])
    return [f for f in cf if os.path.getsize(f) > 0], [f for f in wf if os.path.getsize(f) > 0]


def cell_of(f, l, op):
    cell = None
    with open(f) as fh:
        for i, line in enumerate(fh, 1):
            if line.startswith('{"op":"%s"' % op):
                cell = json.loads(line)
            if i == l:
                return cell
    return cell


def run(ctx):
    quick = ctx.tier == "quick"
    rng = random.Random(ctx.seed)
    ctx.rule = ("histories on the REAL library: directed ones (RequireSets split at a blank, a required class excluded entirely then required elsewhere, a shared "
                "RequireSets slice, set-then-call for every field) + seeded histories of 12-60 steps over 1-2 character recipes and 1-2 wordlist recipes sharing "
                "a list: calls (Alphabet, Entropy x2, SuccessProbability, Generate on forced and seeded paths) interleaved with caller-side updates of every "
                "public field; each call is repeated on a fresh twin with the same field values on the same bytes, all recipes are deep-snapshotted before "
                "and after, and each result is validated against the CURRENT fields; a result that is wrong in a history but right when the same recipe is run "
                "alone in a fresh process is history dependence; non-trivial = a call preceded by at least one field update or call; distinct calls")
    nob = ctx.tlapm("ApiProofs")
    ctx.cover["tlapm"] = "proofs not re-checked in this run (prover did not finish)" if not nob else ("ApiProofs.tla: %d obligations proved - for histories of ANY length over any number of recipes: results are a function of the "
                          "fields at call time, only the caller changes public fields, a failed call leaves nothing behind" % nob)
    ctx.model_check("Api", "MC_Api_hist.cfg", "all histories of <= 4 calls and <= 3 field updates over 2 objects: CallsLeaveFieldsUnchanged, "
                    "ResultIsFunctionOfFields, SharedDerivedNeverWritten", workers=vlib.NCPU)
    r = ctx.tlc("Api", "MC_Api_hist_cache.cfg", workers=4)
    if r["violated"] != "ResultIsFunctionOfFields":
        raise Undecided("non-vacuity witness failed: cached derived fields should violate ResultIsFunctionOfFields in the model")
    r = ctx.tlc("Api", "MC_Api_hist_lock.cfg", workers=4)
    if r["violated"] != "NoCallBlocked":
        raise Undecided("non-vacuity witness failed: a lock left held by a failed call should block a later call in the model")
    ctx.cover["non_vacuity"] = ("with CacheDerived/PointerReceiver = TRUE TLC finds a history whose result reflects stale fields; with GlobalLock = TRUE "
                                "a history in which a failed call blocks the next one")
    # process-wide state: the configured limits are the caller's, the library keeps no memo (Process.tla)
    ctx.model_check("MC_Process", "MC_Process.cfg", "every interleaving/history of 2 goroutines x 2 calls x 2 changes of the limits: the outcome is a function of "
                    "the recipe and the limits configured at the call, only the caller changes the limits, nothing is remembered", workers=vlib.NCPU)
    for cfg, inv, what in (("MC_Process_freeze.cfg", "ResultFollowsRecipeAndConfiguredLimits", "limits remembered from the first call"),
                           ("MC_Process_memo.cfg", "ResultFollowsRecipeAndConfiguredLimits", "results remembered under a lossy key"),
                           ("MC_Process_raise.cfg", "QuiescentLimits", "limits raised during a call and restored (not nesting-safe)")):
        r = ctx.tlc("MC_Process", cfg, workers=4)
        if r["violated"] != inv:
            raise Undecided("non-vacuity witness failed: %s should violate %s in the model" % (what, inv))
    ctx.cover["non_vacuity_process"] = "Process.tla with FreezeLimits / MemoByKey / RaiseLimits = TRUE: TLC refutes the stated invariant in each"
    hists = directed_char() + directed_wl() + nested_wl() + [char_history(rng, rng.randint(12, 40 if quick else 60)) for _ in range(30 if quick else 500)]
    hists += [wl_history(rng, rng.randint(10, 30)) for _ in range(16 if quick else 250)]
    th, total = tlc_histories(ctx, rng, 200 if quick else 100000)
    hists += th
    ctx.cover.update(tlc_generated_histories=len(th), tlc_history_universe=total)
    cfiles, wfiles = run_hist(ctx, hists, "c15")
    cverd = ctx.validate_many("CharTrace", cfiles)
    wverd = ctx.validate_many("WordTrace", wfiles)
    calls = sum(v["extra"]["cells"] for v in cverd + wverd)
    ctx.evaluations = calls
    ctx.nontrivial = calls - len(hists)
    ctx.cover.update(histories=len(hists), calls=calls)
    ctx.sample(hists[0])
    ctx.sample(vlib.nth_line(cfiles[0], 1))
    # own-property verdicts
    ctx.absorb(cverd, cfiles, charfam.describe_char)
    ctx.absorb(wverd, wfiles, wlfam.describe_wl)
    # results that contradict ANOTHER property inside a history: history dependence iff the same recipe is fine when run alone
    suspects = {}
    for v, f in zip(cverd, cfiles):
        for b in v["bad"]:
            if b["why"].startswith("P:") and not b["why"].startswith("P:C15:"):
                c = cell_of(f, b["l"], "cell")
                if c:
                    key = json.dumps([c["char"], c["maxTrials"], c["failRateOne"]], sort_keys=True)
                    suspects.setdefault(key, (c, set(), c["tag"]))[1].add(b["why"])
    if suspects:
        alone = [dict(kind="char", char=c["char"], maxTrials=0 if c["maxTrials"] == 200 else c["maxTrials"], failRateOne=c["failRateOne"], mode="paths",
                      paths=3, maxLeaves=0, tag="alone") for c, _, _ in suspects.values()]
        afiles, _, _ = charfam.run_scenarios(ctx, alone, "c15alone", shards=1)
        averd, _ = charfam.validate(ctx, afiles)
        alone_bad = {}
        for v, f in zip(averd, afiles):
            for b in v["bad"]:
                c = cell_of(f, b["l"], "cell")
                if c:
                    alone_bad.setdefault(json.dumps([c["char"], c["maxTrials"], c["failRateOne"]], sort_keys=True), set()).add(b["why"])
        for key, (c, whys, tag) in suspects.items():
            only_in_history = {w for w in whys if w not in alone_bad.get(key, set())}
            if only_in_history:
                ctx.violation("outcome of a call depends on the calls that preceded it: in history %s the recipe gives '%s', alone in a fresh process it does not"
                              % (tag, sorted(only_in_history)[0]), dict(kind="history", history_tag=tag, recipe=c["char"], whys=sorted(only_in_history)))
            else:
                ctx.notes.append("recipe fails %s also when run alone: not history dependence" % sorted(whys)[0])
    # the same for wordlist calls (e.g. a call made from inside other calls that errs although the recipe is fine alone)
    wsus = {}
    for v, f in zip(wverd, wfiles):
        for b in v["bad"]:
            # (only verdicts that do not depend on which words the draws happened to select - a fresh process orders the list afresh -
            # and only lists inside the domain: an empty entry makes the number of atoms a matter of the draws)
            if b["why"] in ("P:C13:error-for-a-recipe-that-can-be-honoured", "P:C13:Generate-panicked", "P:C13:error-together-with-a-password-or-neither"):
                c = cell_of(f, b["l"], "wcell")
                if c and [] not in c["wl"]["words"]:
                    key = json.dumps([c["wl"], c["maxTrials"], c["failRateOne"]], sort_keys=True)
                    wsus.setdefault(key, (c, set(), c["tag"]))[1].add(b["why"])
    if wsus:
        alone = [dict(kind="wl", wl=c["wl"], maxTrials=0 if c["maxTrials"] == 200 else c["maxTrials"], failRateOne=c["failRateOne"], mode="paths", paths=3,
                      maxLeaves=0, tag="alone", reps=0) for c, _, _ in wsus.values()]
        afiles, _, _ = wlfam.run_scenarios(ctx, alone, "c15walone", shards=1)
        averd, _ = wlfam.validate(ctx, afiles)
        alone_bad = {}
        for v, f in zip(averd, afiles):
            for b in v["bad"]:
                c = cell_of(f, b["l"], "wcell")
                if c:
                    alone_bad.setdefault(json.dumps([c["wl"], c["maxTrials"], c["failRateOne"]], sort_keys=True), set()).add(b["why"])
        for key, (c, whys, tag) in wsus.items():
            only_in_history = {w for w in whys if w not in alone_bad.get(key, set())}
            if only_in_history:
                ctx.violation("outcome of a call depends on the calls around it: in history %s the wordlist recipe gives '%s', alone in a fresh process it does not"
                              % (tag, sorted(only_in_history)[0]), dict(kind="history", history_tag=tag, recipe=c["wl"], whys=sorted(only_in_history)))
            else:
                ctx.notes.append("wordlist recipe fails %s also when run alone: not history dependence" % sorted(whys)[0])
    ctx.assumptions += ["history dependence through process-wide state is detected by comparing with a run of the same recipe alone in a fresh process",
                        "the random stream of each call is held fixed by seeding the index path"]
    return "%d calls in %d histories on the real library validated by TLC (CharTrace/WordTrace incl. twin equality and deep snapshots)" % (calls, len(hists))
