"""C17 - the opgen CLI is faithful to the library recipe its flags describe."""
import json, os, random, subprocess
import vlib
from vlib import Undecided

CLASSES = ["uppercase", "lowercase", "digits", "symbols", "ambiguous"]
SEPS = ["hyphen", "space", "comma", "period", "underscore", "digit", "none", "bogus"]
CAPS = ["none", "first", "all", "random", "one", "bogus"]
FILES = {
    "clean": "alpha\nbeta\ngamma\ndelta\nepsilon\n",
    "dups": "alpha\nbeta\nalpha\ngamma\nbeta\nalpha\n",
    "twins": "polish Polish\nice-cream\tx-ray\nété 4x\n",
    "percent": "100%\n%d\nfifty%s\n%\n",
    "twinsrev": "Polish polish turkey\nnato NATO radar\n",
    "layout": "one two  three\n\n four\r\nfive\n\n",
    "uncap": "4x\n7up\nUSA\n",
    "twinonly": "polish\nalpha\nPolish\nbeta\n",
    "empty": "",
    "solo": "solo\n",
    "solodup": "solo solo\nsolo\n",
    "solotwin": "polish Polish\n",
    "innerpunct": "mother-in-law o'clock\nfoo-bar baz\n",
    # one line longer than a 4096-byte read buffer, and one longer than a 64 KiB scanner token (words are separated by blanks, not lines)
    "longline": " ".join("w%04dq" % i for i in range(1300)) + "\nlast\n",
    "hugeline": "first\n" + "\t".join(("v%03d" % i) + "x" * 216 for i in range(310)) + "\n",
}


def cps(s):
    return [ord(c) for c in s]


def class_list(rng):
    k = rng.random()
    if k < 0.1:
        return ""
    ws = [rng.choice(CLASSES + ["bogus", ""]) for _ in range(rng.randint(1, 4))]
    sep = rng.choice([",", ", ", " ,", ",", ","])
    return sep.join(ws)


def gen_args(rng):
    """Returns (argv list, structured args)."""
    x = rng.random()
    if x < 0.03:
        return [], dict(sub="", flags=[])
    if x < 0.06:
        s = rng.choice(["bogus", "recipe", "Characters", "word"])
        return [s], dict(sub=s, flags=[])
    if x < 0.08:
        return ["--entropy", "characters"], dict(sub="", flags=[dict(name="entropy", val=[], has=0)])
    flags = []
    if x < 0.55:
        sub = "characters"
        if rng.random() < 0.7:
            flags.append(("length", rng.choice(["-1", "0", "1", "2", "8", "20", "33", "64", "+5"])))
        for name in ("allow", "require", "exclude"):
            if rng.random() < 0.5:
                flags.append((name, class_list(rng)))
        if rng.random() < 0.05:
            flags.append(("length", "abc"))
        if rng.random() < 0.05:
            flags.append((rng.choice(["size", "bogus", "list"]), "1"))
    else:
        sub = "words"
        if rng.random() < 0.6:
            flags.append(("size", rng.choice(["-1", "0", "1", "2", "4", "7", "12"])))
        if rng.random() < 0.4:
            flags.append(("list", rng.choice(["words", "syllables", "syllables", "bogus"])))
        if rng.random() < 0.4:
            flags.append(("file", rng.choice(list(FILES) + ["missing"])))
        if rng.random() < 0.7:
            flags.append(("separator", rng.choice(SEPS)))
        if rng.random() < 0.6:
            flags.append(("capitalize", rng.choice(CAPS)))
        if rng.random() < 0.04:
            flags.append((rng.choice(["length", "bogus"]), "3"))
        if rng.random() < 0.03:
            flags.append(("size", "x1"))
    if rng.random() < 0.25:
        flags.append(("entropy", None))
    rng.shuffle(flags)
    return sub, flags


def run(ctx):
    quick = ctx.tier == "quick"
    rng = random.Random(ctx.seed)
    n = 900 if quick else 20000
    ctx.rule = ("%d seeded argument vectors + all single-flag ones over: no/unknown subcommand, a flag before the subcommand, characters x --length {-1..64, "
                "non-numeric} x --allow/--require/--exclude class lists (blanks after commas, unknown and empty names, empty value) x --entropy x unknown flags; "
                "words x --size x --list {words, syllables, bogus} x --file {clean, duplicates, twins+hyphenated+multi-byte, odd layout, uncapitalisable, "
                "empty, missing} x --separator (7 + bogus) x --capitalize (5 + bogus) x --entropy; each run on the REAL binary built from cmd/opgen; "
                "non-trivial = exit status 0 with a validated line; distinct argument vectors" % n)
    ctx.model_check("MC_Cli", "MC_Cli.cfg", "class-list parsing (blanks, order, repetition, unknown names, empty value) and the documented defaults", workers=4)
    opgen = ctx.build_opgen()
    drv = ctx.build_harness()
    aux = ctx.path("aux.ndjson")
    ctx.drv("lists", "-out", aux)
    # word-list files and the title-cased form of their words (environment function, from the standard library)
    fdir = ctx.path("files")
    os.makedirs(fdir, exist_ok=True)
    finfo = {}
    for name, body in FILES.items():
        p = os.path.join(fdir, name + ".txt")
        open(p, "w", encoding="utf-8").write(body)
        ws = body.split()
        t = json.loads(subprocess.run([drv, "titlemap"], input=json.dumps(ws), capture_output=True, text=True, env=ctx.env).stdout or "{}")
        finfo[name] = dict(path=p, words=[cps(w) for w in ws], titles=[cps(t[w]) for w in ws], maxlen=max([len(w) for w in ws] + [1]), readable=1)
    finfo["missing"] = dict(path=os.path.join(fdir, "does-not-exist.txt"), words=[], titles=[], maxlen=1, readable=0)
    # a word list that is not a regular file: standard input (a pipe whose size a stat call reports as 0)
    finfo["stdin"] = dict(finfo["twins"], path="/dev/stdin")
    stdin_body = FILES["twins"].encode("utf-8")
    cases = []
    seen = set()

    style_rng = random.Random(ctx.seed + 4711)

    def add(sub, flags):
        argv = [sub] if sub else []
        st = []
        finfo_used = dict(words=[], titles=[], maxlen=1, readable=1)
        for name, val in flags:
            if val is None:
                argv.append("--" + name)
                st.append(dict(name=name, val=[], has=0))
            else:
                v = val
                if name == "file":
                    finfo_used = {k: w for k, w in finfo[val].items() if k != "path"}
                    v = finfo[val]["path"]
                # Go's flag syntax in all its spellings: --n=v, -n=v, --n v, -n v (the last two not for values starting with '-')
                style = style_rng.randrange(4) if not str(v).startswith("-") and v != "" else style_rng.randrange(2)
                if style == 0:
                    argv.append("--%s=%s" % (name, v))
                elif style == 1:
                    argv.append("-%s=%s" % (name, v))
                else:
                    argv += [("--" if style == 2 else "-") + name, v]
                st.append(dict(name=name, val=cps(v), has=1))
        key = tuple(argv)
        if key in seen:
            return
        seen.add(key)
        cases.append((argv, dict(sub=sub, flags=st, file=finfo_used)))

    add("", [])
    add("bogus", [])
    for sub, fl in (("characters", [("length", "8"), ("allow", "digits"), ("require", "symbols"), ("exclude", "digits"), ("entropy", None), ("bogus", "1")]),
                    ("words", [("size", "3"), ("list", "syllables"), ("file", "dups"), ("separator", "digit"), ("capitalize", "one"), ("entropy", None), ("bogus", "1")])):
        add(sub, [])
        for f in fl:
            add(sub, [f])
    for s in SEPS:
        add("words", [("separator", s), ("size", "3")])
    for L in ("1", "2", "3", "4", "5", "6"):          # requirements that are hard to meet in a short password: the refusal threshold
        for rq in ("uppercase,lowercase,digits,symbols", "digits,symbols", "symbols", "uppercase,digits"):
            add("characters", [("length", L), ("require", rq)])
    # one character can meet two requirements (ambiguous overlaps uppercase, lowercase and digits): shorter than the number of required classes
    for L in ("1", "2", "3"):
        for al, rq in (("digits", "digits,ambiguous"), ("uppercase", "uppercase,ambiguous"), ("digits,uppercase", "digits,uppercase,ambiguous"),
                       ("lowercase,digits", "lowercase,digits,ambiguous"), ("digits", "ambiguous,digits")):
            for ex in (None, "symbols", "lowercase"):
                add("characters", [("length", L), ("allow", al), ("require", rq)] + ([("exclude", ex)] if ex else []))
    for rep in range(6):
        seen.discard(("words", "--file=" + finfo["percent"]["path"], "--size=3"))
        add("words", [("file", "percent"), ("size", "3")])
    for c in CAPS:
        add("words", [("capitalize", c), ("list", "syllables")])
    for f in list(FILES) + ["missing", "stdin"]:
        add("words", [("file", f), ("capitalize", "random"), ("separator", "none")])
        add("words", [("file", f), ("capitalize", "random"), ("entropy", None), ("size", "2")])
        add("words", [("file", f), ("size", "1"), ("separator", "comma")])
        add("words", [("file", f), ("entropy", None), ("capitalize", "one")])
    # the same command line in fresh processes (map iteration order differs per process): the answer must not
    for rep in range(10 if quick else 40):
        for c in ("one", "random"):
            seen.discard(("words", "--file=" + finfo["twinonly"]["path"], "--capitalize=" + c, "--entropy", "--size=3"))
            add("words", [("file", "twinonly"), ("capitalize", c), ("entropy", None), ("size", "3")])
    while len(cases) < n:
        g = gen_args(rng)
        if isinstance(g[0], list):
            argv, st = g
            if tuple(argv) not in seen:
                seen.add(tuple(argv))
                st["file"] = dict(words=[], titles=[], maxlen=1, readable=1)
                cases.append((argv, st))
        else:
            add(*g)

    # behaviour the environment can switch on: a share of the command lines runs with every environment variable the source names, set
    variants = ctx.env_variants()
    envs = {}
    for k in range(len(cases)):
        if variants and k % 3 == 2:
            envs[id(cases[k][1])] = dict(os.environ, **variants[(k // 3) % len(variants)])

    def one(case):
        argv, st = case
        try:
            uses_stdin = any(a.endswith("/dev/stdin") for a in argv)
            p = subprocess.run([opgen] + argv, capture_output=True, timeout=60, cwd=ctx.scratch, env=envs.get(id(st)),
                               input=stdin_body if uses_stdin else None, stdin=None if uses_stdin else subprocess.DEVNULL)
        except subprocess.TimeoutExpired:
            return dict(st, op="cli", exit=-1, out=[], errn=0, argv=" ".join(argv))
        out = p.stdout.decode("utf-8", "replace").split("\n")
        if out and out[-1] == "":
            out = out[:-1]
        return dict(st, op="cli", exit=p.returncode, out=[cps(x) for x in out][:60], errn=p.stderr.count(b"\n"), argv=" ".join(argv)[:300])

    events = vlib.parallel(one, cases, workers=vlib.NCPU)
    shards = vlib.NCPU
    files = []
    for k in range(shards):
        f = ctx.path("cli-%d.ndjson" % k)
        with open(f, "w") as fh:
            for e in events[k::shards]:
                fh.write(json.dumps(e) + "\n")
        if os.path.getsize(f) > 0:
            files.append(f)
    verdicts = ctx.validate_many("CliTrace", files, env={"VERIF_AUX": aux})
    ctx.evaluations = len(events)
    ctx.nontrivial = sum(v["extra"]["ok0"] for v in verdicts)
    exits = {}
    for e in events:
        exits[e["exit"]] = exits.get(e["exit"], 0) + 1
    ctx.cover.update(argument_vectors=len(events), exit_statuses={str(k): v for k, v in sorted(exits.items())})
    ctx.sample(dict(argv=events[5]["argv"], exit=events[5]["exit"], out=["".join(map(chr, l)) for l in events[5]["out"][:2]]))
    ctx.sample(dict(argv=events[40]["argv"], exit=events[40]["exit"]))
    ctx.absorb(verdicts, files, lambda l, f, why: dict(kind="cli", why=why, argv=vlib.nth_line(f, l)["argv"], exit=vlib.nth_line(f, l)["exit"],
                                                      stdout=["".join(map(chr, x)) for x in vlib.nth_line(f, l)["out"][:5]]))
    ctx.assumptions += ["Go's flag syntax (dashes, '=') is resolved by the harness, the meaning of names and values by Cli.tla",
                        "refusal for the failure rate is a band as in C13; with --entropy on a recipe that cannot be honoured only 'no password printed' is required"]
    return "%d runs of the real opgen binary validated by TLC against Cli.tla (exit status, one line, membership of the line in the described recipe's passwords, entropy to two decimals)" % len(events)
