"""C10 - word lists normalise to a duplicate-free set; capitalised twins are removed."""
import random
import vlib
from checks import wlfam


def lists(rng, n):
    pool = wlfam.CAPITALISABLE + wlfam.UNCAP + ["Polish", "polish", "One", "Ice-Cream", "Ice-cream", "ice-Cream", "O'Neil", "Größe", "usa", "Usa", "mcDonald",
                                                "McDonald", "Mcdonald", "ǆ", "ǅ", "Ǆ", "ß", "ǰ", "new york", "New York", "New york", "a", "A", "é", "É", "é́",
                                                "o’brien", "O’brien", "O’Brien", "paral·lel", "Paral·Lel", "¿qué", "¿Qué", "pad ", "pad", " pad", "line\r", "line", "\ttab", "nb\u00a0", "nb", "wide\u3000", "iPhone", "IPhone", "pOLISH", "POLISH"]
    out = [["o’brien", "O’Brien", "one"], ["O’Brien", "o’brien"], ["paral·lel", "Paral·Lel"], ["¿qué", "¿Qué", "que"],
           ["alpha", "alpha ", "alpha\r", "beta"], [" alpha", "alpha"], ["o'neil", "O'neil", "O'Neil"], ["e-mail", "e-Mail"], ["e-mail", "e-Mail", "E-Mail"],
           ["polish", "Polish", "one"], ["Polish", "polish"], ["usa", "USA"], ["USA", "usa"], ["mcDonald", "McDonald"], ["one"], ["One"],
           ["ice-cream", "Ice-Cream", "Ice-cream"], ["new york", "New York", "New york"], ["a", "A", "a", "A"], ["ǆ", "ǅ", "Ǆ"],
           ["ǆemal", "ǅemal", "one"], ["ᾀδω", "ᾈδω"], ["ⅷ", "Ⅷ", "two"], ["ab", "c"], ["a", "bc"], ["ab", "c"], ["zaz", "a", "zb"], ["za", "za", "zb"],
           ["Polishpo", "lish", "five"], ["Polish", "polish", "five"], ["us", "US"], ["US", "us"],
           ["ice-Cream", "Ice-cream"], ["Ice-cream", "ice-Cream", "ice-cream"], ["o'neil", "o'Neil"], ["x-ray", "x-Ray", "one"], ["ırmak", "irmak"],
           ["polish", "Polish", "Polish"], ["Polish", "polish", "Polish", "Polish", "one"],
           ["pad ", "pad", "other"], ["line\r", "line"], [" x", "x ", "x"], ["nb\u00a0", "nb"], ["iPhone", "IPhone"], ["pOLISH", "POLISH", "polish"],
           ["new York", "New York"], ["one", "one", "one"], ["a", "a", "a", "a", "b"], ["b", "a", "a", "a", "a", "a"]]
    while len(out) < n:
        k = rng.randint(1, 9)
        out.append([rng.choice(pool) for _ in range(k)])
    return out[:n]


def run(ctx):
    quick = ctx.tier == "quick"
    rng = random.Random(ctx.seed)
    ctx.rule = ("input lists: directed ones (twins in both orders, acronyms, camel case, digraphs, hyphenated and spaced words, combining marks) + seeded lists "
                "of 1-9 words over a pool with capitalised/lower-case/caseless/non-ASCII forms; each multiset is constructed %d times from seeded permutations "
                "with extra repetitions (distinct outcomes reported), and generated from; non-trivial = list with a duplicate or a title-cased twin")
    ctx.rule = ctx.rule % (200 if quick else 3000)
    ctx.model_check("MC_WordListCtor", "MC_WordListCtor.cfg", "NewWordList under EVERY visiting order of the map pass and every collect order: kept = KeptSpec, "
                    "uncap = UncapSpec, input untouched, notice is a count", workers=vlib.NCPU, constants={"MaxIn": 4 if quick else 5})
    scen = []
    for ws in lists(rng, 60 if quick else 2500):
        wl = dict(words=[wlfam.o(w) for w in ws], nolist=0, len=2, cap=rng.choice(wlfam.SCHEMES), sep="char", sepChar=wlfam.o("-"))
        scen.append(dict(kind="wl", wl=wl, maxTrials=0, failRateOne=0, mode="paths", paths=0, maxLeaves=0, tag="ctor-reps", reps=200 if quick else 3000))
        wl2 = dict(wl)
        wl2.update(len=rng.choice([1, 2]), cap=rng.choice(["all", "random", "one", "first"]))
        scen.append(dict(kind="wl", wl=wl2, maxTrials=0, failRateOne=0, mode="tree", paths=0, maxLeaves=3000, tag="ctor-generate", reps=0))
    # construction only (nothing generated): lists containing the empty string next to twins, and long lists (> 4096 entries,
    # like the shipped ones) whose duplicates and twins lie far apart
    special = [["", "polish", "Polish"], ["école", "", "École"], ["", "one"], ["", "", "a", "A"], ["one", ""]]
    filler = ["w%05d" % i for i in range(4300 if quick else 9000)]
    special.append(["Polish"] + filler + ["polish"])
    special.append(["polish", "zebra"] + filler + ["Polish", "zebra", "Zebra"])
    # a word repeated as often as a narrow counter can count (255/256/257/512; thorough 65536), next to its capitalised twin
    for k in (255, 256, 257, 512) + (() if quick else (65535, 65536, 65537)):
        special.append(["polish"] * k + ["Polish", "one"])
        special.append(["Polish"] * k + ["one", "polish"])
    # sorted input (byte order) of more than 256 entries that still contains repeats and twins
    srt = sorted(["w%05d" % i for i in range(300)] + ["w00007", "w00007", "w00150", "Zebra", "zebra", "Zebra", "W00299", "w00299"])
    special.append(srt)
    special.append(sorted(set(srt)))
    # many lower-case/capitalised pairs at once (a removal that disturbs the bookkeeping of another pair)
    pairs = [w for i in range(40 if quick else 200) for w in ("p%03dx" % i, "P%03dx" % i)] + ["q%03d" % i for i in range(30)]
    special.append(pairs)
    special.append(pairs[::-1])
    for ws in special:
        wl = dict(words=[wlfam.o(w) for w in ws], nolist=0, len=2, cap="none", sep="char", sepChar=wlfam.o("-"))
        scen.append(dict(kind="wl", wl=wl, maxTrials=0, failRateOne=0, mode="paths", paths=0, maxLeaves=0, tag="ctor-special", reps=(3 if len(ws) > 1000 else 40) if len(ws) > 100 else 200))
    scen.append(dict(kind="wl", wl=dict(words=[], nolist=0, len=2, cap="none", sep="char", sepChar=[]), maxTrials=0, failRateOne=0, mode="paths", paths=1,
                     maxLeaves=0, tag="empty-input", reps=0))
    files, cells, leaves = wlfam.run_scenarios(ctx, scen, "c10")
    # the same constructions in a process whose standard error cannot be written (/dev/full): a list with duplicates is still a list
    full = [s_ for s_ in scen if s_["tag"] == "ctor-reps"][:12]
    full = [dict(s_, reps=20, tag="ctor-stderr-unwritable") for s_ in full]
    ff, fc, fl = wlfam.run_scenarios(ctx, full, "c10-devfull", shards=1, stderr_path="/dev/full")
    files, cells, leaves = files + ff, cells + fc, leaves + fl
    sf, sc_, sl = wlfam.run_sequences(ctx, wlfam.ctor_collision_sequences(), "c10")
    files, cells, leaves = files + sf, cells + sc_, leaves + sl
    verdicts, decided = wlfam.validate(ctx, files)
    ctx.evaluations = sum(s["reps"] for s in scen) + leaves
    ctx.nontrivial = wlfam.count_cells(files, lambda c: c["ctorErr"] == 0 and len(c["kept"]) < len(c["wl"]["words"]))
    ctx.cover.update(lists=(len(scen) - len(special)) // 2 + len(special), long_lists=2, constructions=sum(s["reps"] for s in scen), generate_runs=leaves)
    ctx.sample(vlib.nth_line(files[0], 1))
    ctx.absorb(verdicts, files, wlfam.describe_wl)
    ctx.assumptions += ["real iteration orders are sampled by repeated construction (each range loop starts at a random offset); all orders are explored in the model only",
                        "strings.Title per input word is supplied by the harness"]
    return "kept set, Size(), caller's slice and generated atoms of the real NewWordList validated by TLC against WordListCtor!KeptSpec for %d lists" % (len(scen) // 2)
