"""C13 - Generate fails only when the recipe cannot be honoured: an error, never a panic."""
import random
import vlib
from checks import charfam


def sc(c, paths=5, mt=0, fr1=0, tag="c13", mode="paths"):
    base = dict(len=1, allow=0, require=0, exclude=0, allowChars=[], requireSets=[], excludeChars=[])
    base.update(c)
    return dict(kind="char", char=base, maxTrials=mt, failRateOne=fr1, mode=mode, paths=paths, maxLeaves=0, tag=tag)


def o(s):
    return [ord(c) for c in s]


def char_scenarios(rng, quick):
    out = []
    # zero values and recipes that cannot be honoured
    for L in (0, -1, -7, 1, 3):
        out.append(sc(dict(len=L), tag="zero-value"))
        out.append(sc(dict(len=L, allow=4, exclude=4), tag="empty-alphabet"))
        out.append(sc(dict(len=L, allowChars=o("ab"), excludeChars=o("ba")), tag="empty-alphabet"))
        out.append(sc(dict(len=L, allow=15, exclude=16), tag="default-like"))
        out.append(sc(dict(len=L, requireSets=[o("ab"), o("bc")]), tag="overlapping-required"))
    # recipes that name their characters through Require alone (partially initialised literals): the required classes ARE the alphabet
    for rq in (4, 3, 16, 12, 31, 8):
        for L in (1, 6):
            out.append(sc(dict(len=L, require=rq), tag="require-only"))
    out.append(sc(dict(len=4, requireSets=[o("abc")]), tag="require-only"))
    # counts whose terms are exactly 2^64 / 2^32 (16 characters x 16, 4 x 32, 2 x 64, 256 x 8; 16 x 8, 4 x 16, 2 x 32) with a requirement
    for chars, L in (("0123456789abcdef", 16), ("ACGT", 32), ("01", 64), ("0123456789abcdef", 8), ("ACGT", 16), ("01", 32), ("0123456789abcdef", 15), ("0123456789abcdef", 17)):
        out.append(sc(dict(len=L, allowChars=o(chars), requireSets=[o(chars[-1])]), tag="power-boundary"))
        out.append(sc(dict(len=L, allowChars=o(chars), requireSets=[o(chars[:len(chars) // 2])]), tag="power-boundary"))
    out.append(sc(dict(len=8, allowChars=[0x4E00 + i for i in range(256)], requireSets=[[0x4E00, 0x4E01]]), tag="power-boundary"))
    # the refusal band: filler alphabet of size A, one required character: p = 1 - ((A-1)/A)^L
    for A in (11, 27, 37, 63):
        filler = [0x4E00 + i for i in range(A - 1)]
        for L in range(1, 14):
            out.append(sc(dict(len=L, allowChars=filler, requireSets=[o("0")]), paths=3, tag="band"))
    # ... and one-character recipes "k required characters out of N" right at the threshold 0.0984468 (tight band)
    for k, N in ((5, 51), (10, 102), (96, 976), (49, 499), (98, 995), (99, 1005), (10, 101), (2, 21), (1, 10)):
        out.append(sc(dict(len=1, allowChars=[0x4E00 + i for i in range(k, N)], requireSets=[[0x4E00 + i for i in range(k)]]), paths=3, tag="band-tight"))
    # other attempt budgets under the default limit 1e-9: the refusal threshold follows the budget in force AT THE CALL
    # (p* = 0.984 for 5 attempts, 0.339 for 50, 0.0575 for 350, 0.0103 for 2000): one recipe on either side of each
    for mt, (ka, na), (kr, nr) in ((2000, (2, 100), (1, 200)), (5, (99, 100), (9, 10)), (50, (1, 2), (1, 4)), (350, (1, 10), (1, 25)), (199, (11, 100), (8, 100)),
                                   (201, (11, 100), (8, 100))):
        for k, N in ((ka, na), (kr, nr)):
            out.append(sc(dict(len=1, allowChars=[0x4E00 + i for i in range(k, N)], requireSets=[[0x4E00 + i for i in range(k)]]), paths=3, mt=mt, tag="band-other-budget"))
            out.append(sc(dict(len=3, allowChars=[0x4E00 + i for i in range(k, 3 * N)], requireSets=[[0x4E00 + i for i in range(k)]]), paths=3, mt=mt, tag="band-other-budget"))
    # overlapping required sets with real classes (were refused/NaN before the count was repaired)
    for L in (1, 2, 4, 8, 20):
        out.append(sc(dict(len=L, allow=3, require=4, requireSets=[o("357")]), tag="overlap"))
        out.append(sc(dict(len=L, allow=3, require=4, requireSets=[o("13579")]), tag="overlap"))
        out.append(sc(dict(len=L, requireSets=[o("ab"), o("bc"), o("ca")]), tag="overlap"))
        out.append(sc(dict(len=L, allow=15, require=15, exclude=16), tag="all-required"))
    # emptied required sets (either outcome allowed; never a panic)
    out.append(sc(dict(len=2, require=12, excludeChars=o("0123456789")), tag="emptied"))
    out.append(sc(dict(len=2, require=4, excludeChars=o("0123456789"), allow=3), tag="emptied"))
    # non-default attempt budgets with a tape on which every attempt fails (paths 0 and 1 force index 0 / last)
    for mt in (1, 2, 3, 7, 50, 199, 201, 350):
        out.append(sc(dict(len=rng.choice([1, 2, 4]), allowChars=o("abc"), requireSets=[o("b")]), paths=4, mt=mt, fr1=1, tag="budget"))
        out.append(sc(dict(len=3, allow=2, require=4), paths=4, mt=mt, fr1=1, tag="budget"))
    # default budget, all attempts fail
    out.append(sc(dict(len=4, allowChars=o("abcdefgh"), requireSets=[o("d"), o("e")]), paths=4, tag="default-budget"))
    out.append(sc(dict(len=8, allow=15, require=12, exclude=16), paths=4, tag="default-budget"))
    n = 60 if quick else 6000
    for _ in range(n):
        c = dict(len=rng.choice([-1, 0, 1, 1, 2, 3, 5, 8, 20]), allow=rng.randrange(32), require=rng.choice([0, 0, 4, 8, 12, rng.randrange(32)]),
                 exclude=rng.choice([0, 16, rng.randrange(32)]), allowChars=o(rng.choice(["", "", "ab", "é0"])),
                 requireSets=[o(x) for x in rng.sample(["357", "ab", "bc", "é", "0", "!"], rng.randint(0, 2))],
                 excludeChars=o(rng.choice(["", "", "0", "ab"])))
        out.append(sc(c, paths=4, tag="seeded"))
    return out


def run(ctx):
    quick = ctx.tier == "quick"
    rng = random.Random(ctx.seed)
    ctx.rule = ("character recipes: zero values, non-positive lengths, empty alphabets, overlapping/equal/emptied required sets, a ladder of recipes "
                "across the refusal threshold (alphabets 11..63, one required character, lengths 1..13), attempt budgets 1..350 on tapes where every "
                "attempt fails, seeded class recipes - each run through the REAL Generate on forced index paths (all-first, all-last, failing first "
                "attempt, seeded) - and complete trees with MaxTrials 1..3; wordlist recipes: zero values, nil/empty lists, failing separator recipes; "
                "non-trivial = the recipe has a requirement or cannot be honoured")
    ctx.model_check("MC_CharGen", "MC_CharGen.cfg", "CharGen (MaxFailRate = 1): ErrIff, TrialsBounded, no panic without a fault", workers=vlib.NCPU)
    ctx.model_check("MC_CharGen", "MC_CharGen_default.cfg", "CharGen (default refusal band): GenerousRecipeNeverRefused, ErrIff", workers=vlib.NCPU)
    ok0, _ = ctx.apalache("CharGenApa", inv="IndInv", length=0, init="Init")
    ok1, _ = ctx.apalache("CharGenApa", inv="IndInv", length=1, init="IndInv")
    if not (ok0 and ok1):
        raise vlib.Undecided("Apalache refutes the inductive invariant of the retry loop (model-level)")
    ctx.cover["apalache"] = ("CharGenApa.IndInv is inductive for symbolic MaxTrials and Length up to 100000: attempts <= MaxTrials, draws = attempts x Length "
                             "<= MaxTrials x Length, 'exhausted' only after exactly MaxTrials complete candidates")
    scen = char_scenarios(rng, quick)
    uni = charfam.tlc_universe(ctx, 3, 2)
    rng.shuffle(uni)
    scen += [charfam.concretize(s, rng) for s in uni[: (80 if quick else 1500)]]
    files, cells, leaves = charfam.run_scenarios(ctx, scen, "c13", shards=vlib.NCPU)
    sf, sc_, sl = charfam.run_sequences(ctx, charfam.collision_sequences(), "c13")
    files, cells, leaves = files + sf, cells + sc_, leaves + sl
    verdicts, decided = charfam.validate(ctx, files)
    ctx.evaluations = leaves
    nt = set()
    for f in files:
        for e in vlib.read_ndjson(f):
            if e["op"] == "cell" and (e["char"]["requireSets"] or e["char"]["require"] or e["char"]["len"] < 1 or not e["alpha"]):
                nt.add(repr((e["char"], e["maxTrials"])))
    ctx.nontrivial = len(nt)
    ctx.cover.update(char_cells=cells, char_generate_runs=leaves)
    ctx.sample(vlib.nth_line(files[0], 1))
    ctx.sample(vlib.nth_line(files[0], 2))
    ctx.absorb(verdicts, files, charfam.describe_char)
    ctx.assumptions += ["refusal rule decided as a band on the exact success fraction: must refuse <= 0.085, must not refuse >= 0.11 "
                        "(default 200 attempts, 1e-9), either in between; recipes with a required set emptied by exclusion: both outcomes accepted"]
    try:
        from checks import wlfam
        wlfam.c13_part(ctx, rng, quick)
    except ImportError:
        ctx.notes.append("wordlist part not built yet")
    return ("every recorded Generate outcome of the real library (ok / error class / panic) is checked by TLC against CharGen's ErrIff and the exact "
            "success fraction; %d runs over %d recipes" % (leaves, cells))
