"""C07 - character-recipe entropy = log2 of the exact number of satisfying passwords."""
import random
import vlib
from checks import charfam

CLASS = dict(U=1, L=2, D=4, S=8, A=16)


def overlap_recipes(rng, n, maxlen):
    """Real-class recipes with custom sets that overlap each other and the class flags (0-8 required sets)."""
    pools = ["0123456789", "357", "7x", "abc", "ABCabc", "!@", "0O1Il5S", "aé", "éβ", "xyz0", "-_", "09", "AZaz", "5S", "漢字", "é", "abcdefghij"]
    out = []
    for _ in range(n):
        nreq = rng.choice([0, 1, 1, 2, 2, 3, 3, 4, 5, 8])
        req_flags = 0
        sets = []
        for _ in range(nreq):
            if rng.random() < 0.35:
                req_flags |= rng.choice([1, 2, 4, 8])
            else:
                sets.append([ord(c) for c in rng.choice(pools)])
        if sets and rng.random() < 0.2:
            sets.append(list(sets[0]))            # equal sets
        if sets and rng.random() < 0.2:
            sets.append(sets[0][:1])              # nested
        c = dict(len=rng.choice([1, 2, 3, 4, 5, 8, 12, 20, 33, maxlen]), allow=rng.choice([0, 3, 7, 15, 4, 12, rng.randrange(32)]),
                 require=req_flags, exclude=rng.choice([0, 0, 16, 16, 4, 8]), allowChars=[ord(x) for x in rng.choice(["", "", "abc", "é0", "xyz"])],
                 requireSets=sets, excludeChars=[ord(x) for x in rng.choice(["", "", "", "3", "a!", "09"])])
        out.append(dict(kind="char", char=c, maxTrials=0, failRateOne=0, mode="paths", paths=0, maxLeaves=0, tag="overlap"))
    return out


def many_sets():
    """More required sets than a byte has bits (9-11 overlapping two-character sets, plus two class flags)."""
    out = []
    letters = "abcdefghijklmnop"
    for k, L, flags in ((9, 12, 0), (10, 14, 4), (11, 16, 5)):
        sets = [[ord(letters[i]), ord(letters[i + 1])] for i in range(k)]
        c = dict(len=L, allow=2, require=flags, exclude=0, allowChars=[], requireSets=sets, excludeChars=[])
        out.append(dict(kind="char", char=c, maxTrials=0, failRateOne=0, mode="paths", paths=0, maxLeaves=0, tag="many-sets"))
    # many very small required sets, length at or just above their number, large alphabet: the inclusion-exclusion terms nearly cancel
    greek = [0x3B1 + i for i in range(24)] + [0x410 + i for i in range(64)] + [0x4E00 + i for i in range(40)]
    for k, L, allow, extra in ((7, 7, 15, []), (7, 8, 15, []), (8, 8, 15, []), (8, 9, 15, greek), (7, 7, 15, greek), (7, 6, 15, greek), (6, 6, 7, greek)):
        sets = [[ord("a") + i] for i in range(k)]
        c = dict(len=L, allow=allow, require=0, exclude=0, allowChars=extra, requireSets=sets, excludeChars=[])
        out.append(dict(kind="char", char=c, maxTrials=0, failRateOne=0, mode="paths", paths=0, maxLeaves=0, tag="cancellation"))
    return out


def long_recipes(rng, n):
    out = []
    for _ in range(n):
        L = rng.choice([100, 171, 172, 173, 256, 500, 1000, 2000, 5000])
        sets = [[ord(c) for c in s] for s in rng.sample(["0123456789", "357", "abc", "!@", "xyz0", "é"], rng.randint(0, 3))]
        c = dict(len=L, allow=rng.choice([3, 7, 15, 4]), require=rng.choice([0, 4, 12, 5]), exclude=rng.choice([0, 16]), allowChars=[],
                 requireSets=sets, excludeChars=[])
        out.append(dict(kind="char", char=c, maxTrials=0, failRateOne=0, mode="paths", paths=0, maxLeaves=0, tag="long"))
    # a 1000-character alphabet with one required character; 64-character alphabets with one required character at lengths
    # where a missed requirement is still visible in float32
    big = [0x4E00 + i for i in range(1000)]
    for L in (500, 1023, 1024, 1500, 3000):
        out.append(dict(kind="char", char=dict(len=L, allow=0, require=0, exclude=0, allowChars=big, requireSets=[[ord("x")]], excludeChars=[]),
                        maxTrials=0, failRateOne=0, mode="paths", paths=0, maxLeaves=0, tag="long-big-alphabet"))
    for L in (586, 600, 700, 700, 900):
        for rq in ("q", "z"):
            out.append(dict(kind="char", char=dict(len=L, allow=3, require=0, exclude=0, allowChars=[ord(c) for c in "0123456789!"], requireSets=[[ord(rq)]],
                                                   excludeChars=[]), maxTrials=0, failRateOne=0, mode="paths", paths=0, maxLeaves=0, tag="long-tiny-required"))
    return out


def power_boundaries():
    """Terms of the count that are exactly 2^31, 2^32, 2^63, 2^64 (a machine-word shortcut for small powers wraps exactly there):
    the alphabet, or the alphabet without a required set, has 2^k characters and the length is 31/k, 32/k, 63/k, 64/k or next to it."""
    out = []
    def c(L, allow_chars, sets):
        ch = dict(len=L, allow=0, require=0, exclude=0, allowChars=allow_chars, requireSets=sets, excludeChars=[])
        return dict(kind="char", char=ch, maxTrials=0, failRateOne=0, mode="paths", paths=0, maxLeaves=0, tag="power-boundary")
    cjk = lambda n, off=0: [0x4E00 + off + i for i in range(n)]
    for k in (1, 2, 3, 4, 5, 6, 8):       # (2^16 characters: the set algebra over such an alphabet takes TLC minutes per cell)
        b = 1 << k
        for total in (31, 32, 63, 64):
            if total % k:
                continue
            for L in (total // k - 1, total // k, total // k + 1):
                if L < 1:
                    continue
                if b <= 512:
                    out.append(c(L, cjk(b), [cjk(max(1, b // 4))]))                 # |alphabet| = 2^k, a quarter of it required
                    out.append(c(L, cjk(b), [[ord("x"), ord("y")]]))                # |alphabet without the required set| = 2^k
                    out.append(c(L, cjk(b, 2), [cjk(3), cjk(3, b)]))                # two overlapping-free sets around a 2^k core
    return out


def flag_only(rng, quick):
    """Recipes made of class flags alone: every allow x exclude pair without requirements (the count is |alphabet|^L: overlapping
    classes - Ambiguous shares characters with Uppers, Lowers and Digits - must not be counted twice), and allow x require x exclude
    triples (quick: seeded, thorough: all 2^15)."""
    out = []
    def c(a, r, x, L):
        ch = dict(len=L, allow=a, require=r, exclude=x, allowChars=[], requireSets=[], excludeChars=[])
        return dict(kind="char", char=ch, maxTrials=0, failRateOne=0, mode="paths", paths=0, maxLeaves=0, tag="flags-only")
    for a in range(32):
        for x in range(32):
            out.append(c(a, 0, x, rng.choice([1, 2, 8, 20])))
    if quick:
        for _ in range(300):
            out.append(c(rng.randrange(32), rng.randrange(32), rng.choice([0, 16, rng.randrange(32)]), rng.choice([1, 3, 8, 20])))
    else:
        for a in range(32):
            for r in range(1, 32):
                for x in range(32):
                    out.append(c(a, r, x, rng.choice([1, 3, 8, 20])))
    return out


def run(ctx):
    quick = ctx.tier == "quick"
    rng = random.Random(ctx.seed)
    ctx.rule = ("recipes: TLC-generated universe (3 abstract characters, every overlap pattern of up to 2 required sets, duplicates, emptied sets) + seeded "
                "real-class recipes with 0-8 required sets, and 9-11 overlapping ones (custom sets overlapping each other and the class flags, equal and nested sets), lengths 1..64, "
                "+ lengths 100..5000 (count compared by 12 modular fingerprints and bit length); non-trivial = at least one required set; distinct recipes")
    ctx.model_check("MC_BigNat", "MC_BigNat.cfg", "BigNat == native arithmetic (limb base 8)", constants={"MaxV": 120 if quick else 500})
    ctx.model_check("MC_DyadicLog2", "MC_DyadicLog2.cfg", "log2 bracket: ordered, width <= 4*2^-30, exact on powers of two, known values, squares",
                    constants={"MaxN": 200 if quick else 2000}, workers=vlib.NCPU)
    ctx.model_check("MC_CharCount", "MC_CharCount.cfg", "inclusion-exclusion count == brute-force |ValidStrings| for every overlap pattern; "
                    "BigNat count == native count; modular fingerprint == count mod p", workers=vlib.NCPU,
                    constants={"MaxLen": 3 if quick else 4})
    uni = [s for s in charfam.tlc_universe(ctx, 3, 2 if quick else 3) if s["maxTrials"] == 1]
    rng.shuffle(uni)
    scen = []
    for s in uni[: (250 if quick else 4000)]:
        s = charfam.concretize(s, rng)
        s.update(mode="paths", paths=0, maxTrials=0, failRateOne=0)
        s["char"]["len"] = rng.choice([1, 2, 3, 5, 9, 30])
        scen.append(s)
    scen += overlap_recipes(rng, 300 if quick else 6000, 64)
    scen += long_recipes(rng, 16 if quick else 200)
    scen += many_sets()
    scen += flag_only(rng, quick)
    scen += power_boundaries()
    # the plain product Length x log2(|alphabet|) for every length up to 700 (quick: every third) over four alphabet sizes: rounded once
    for a, x in ((15, 16), (7, 0), (3, 0), (4, 0)):
        for L in range(1, 701, 3 if quick else 1):
            scen.append(dict(kind="char", char=dict(len=L, allow=a, require=0, exclude=x, allowChars=[], requireSets=[], excludeChars=[]), maxTrials=0,
                             failRateOne=0, mode="paths", paths=0, maxLeaves=0, tag="length-ladder"))
    files, cells, leaves = charfam.run_scenarios(ctx, scen, "c07", shards=vlib.NCPU)
    sf, sc_, sl = charfam.run_sequences(ctx, charfam.collision_sequences(), "c07")
    files, cells, leaves = files + sf, cells + sc_, leaves + sl
    verdicts, decided = charfam.validate(ctx, files)
    ctx.evaluations = cells
    seen = set()
    for f in files:
        for e in vlib.read_ndjson(f):
            if e["op"] == "cell" and (e["char"]["requireSets"] or e["char"]["require"]):
                seen.add(repr(e["char"]))
    ctx.nontrivial = len(seen)
    ctx.cover.update(recipes=cells)
    ctx.sample(vlib.nth_line(files[0], 1))
    ctx.absorb(verdicts, files, charfam.describe_char)
    ctx.assumptions += ["log2 bracket of DyadicLog2 (outward rounding, self-checked by TLC); tolerance 2 ulp of float32",
                        "for lengths > 64 the count is compared by 12 modular fingerprints (primes < 2^15) and the entropy against the logged count"]
    return ("TLC recomputes the exact count by inclusion-exclusion over BigNat for %d recipes evaluated by the real library and brackets log2 of it "
            "against the reported float32 entropy" % cells)
