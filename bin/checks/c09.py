"""C09 - all randomness comes from the OS CSPRNG; generation fails closed when it fails."""
import json, os, random, subprocess
import vlib
from vlib import Undecided
from checks import charfam, wlfam

ALLOWED_IMPORTS = {"crypto/rand", "encoding/binary", "fmt", "math", "strings", "log", "math/big", "sort", "os", "unicode/utf8",
                   "github.com/deckarep/golang-set"}


def scenarios(rng, n):
    out = []
    o = wlfam.o
    for i in range(n):
        if i % 2 == 0:
            c = dict(len=rng.randint(1, 6), allow=rng.choice([0, 4, 12, 15, 3]), require=rng.choice([0, 0, 4, 8]), exclude=rng.choice([0, 16]),
                     allowChars=o(rng.choice(["", "abc", "éβ"])), requireSets=[o(x) for x in rng.sample(["ab", "9", "é"], rng.randint(0, 1))], excludeChars=[])
            if not c["allow"] and not c["allowChars"]:
                c["allowChars"] = o("xyz")
            out.append(dict(kind="char", char=c, maxTrials=0, failRateOne=1, mode="paths", paths=0, maxLeaves=0, tag="fault", reps=0))
        else:
            sep = rng.choice([dict(sep="char", sepChar=o("-")), dict(sep="SFDigits1", sepChar=[]), dict(sep="SFDigits2", sepChar=[]), dict(sep="SFSymbols", sepChar=[]),
                              dict(sep="recipe", sepChar=[], sepRecipe=dict(len=2, allow=12, require=4, exclude=0, allowChars=[], requireSets=[], excludeChars=[])),
                              dict(sep="custom0", sepChar=[], sepRecipe=dict(len=1, allow=0, require=0, exclude=0, allowChars=o("xyz"), requireSets=[], excludeChars=[]))])
            wl = dict(words=[o(w) for w in rng.sample(wlfam.CAPITALISABLE + wlfam.UNCAP, rng.randint(2, 7))], nolist=0, len=rng.randint(1, 5),
                      cap=rng.choice(wlfam.SCHEMES))
            wl.update(sep)
            out.append(dict(kind="wl", wl=wl, maxTrials=0, failRateOne=1, mode="paths", paths=0, maxLeaves=0, tag="fault", reps=0))
    return out


def run(ctx):
    quick = ctx.tier == "quick"
    rng = random.Random(ctx.seed)
    ctx.rule = ("for each of %d seeded recipes of both kinds (class and custom alphabets, requirements forcing retries, preset/custom/caller-written separator "
                "functions, rejected raw words in the stream) a fault-free generation is recorded; then at EVERY read of that run the same bytes are replayed "
                "with an error after 0,1,2,3 bytes and with short deliveries (1,2,3 bytes, 1+1+1+1, 2+1, 1+3); plus complete small choice trees executed twice "
                "with different raw representatives and chunkings; non-trivial = an injected fault or re-chunking; distinct (recipe, read, fault)")
    ctx.rule = ctx.rule % (40 if quick else 2500)
    ctx.model_check("Draw", "MC_Draw.cfg", "ReadFail -> panic with no result at any read; ReadShort never changes the outcome; result only in state done",
                    constants={"W": 5}, workers=vlib.NCPU)
    ctx.model_check("MC_CharGen", "MC_CharGen.cfg", "DrawFault at any draw -> terminal panic state, nothing returned (PanicIsTerminal, NoOutputUnlessDone)", workers=vlib.NCPU)
    ctx.model_check("MC_WordGen", "MC_WordGen.cfg", "DrawFault at any draw (caps, word, separator, entropy call) -> terminal panic state", workers=vlib.NCPU,
                    constants={"MaxLen": 2})
    scen = scenarios(rng, 40 if quick else 2500)
    sf = ctx.path("fault-scen.ndjson")
    with open(sf, "w") as f:
        for s in scen:
            f.write(json.dumps(s) + "\n")
    drv = ctx.build_harness()
    # the fault-free runs once now ... (repeated at the end of the check in another process with another environment)
    first = ctx.path("fault-first.ndjson")
    ctx.drv("faults", "-seed", ctx.seed, "-scen", sf, "-out", first, "-baseonly")
    shards = vlib.NCPU
    procs, files = [], []
    for k in range(shards):
        out = ctx.path("fault-%d.ndjson" % k)
        files.append(out)
        procs.append(ctx.spawn([drv, "faults", "-seed", str(ctx.seed), "-scen", sf, "-out", out, "-shard", str(k), "-shards", str(shards)]))
    for p in procs:
        rc_, o_, e = ctx.wait(p)
        if p.returncode != 0:
            raise Undecided("faults driver failed (a source failure that kills the process instead of panicking is not observable in-process): " + (e or o_)[-800:])
    files = [f for f in files if os.path.getsize(f) > 0]
    verdicts = ctx.validate_many("FaultTrace", files)
    injected = sum(v["extra"]["error"] + v["extra"]["short"] for v in verdicts)
    ctx.absorb(verdicts, files, lambda l, f, why: dict(kind="fault", why=why, event=vlib.nth_line(f, l),
                                                       scenario=scen[vlib.nth_line(f, l)["id"]]))
    ctx.sample(vlib.nth_line(files[0], 2))
    # tape determinism on complete trees: every leaf executed twice (other representatives of the same indices, other chunking)
    uni = charfam.tlc_universe(ctx, 3, 2)
    rng.shuffle(uni)
    cs = [charfam.concretize(s, rng) for s in uni[: (60 if quick else 800)]] + charfam.seeded_flag_trees(ctx, rng, 4 if quick else 40)
    # very long passwords: still one choice per position, taken from the stream in order (every run is executed twice)
    for L in (2047, 2048, 4096, 5000):
        cs.append(dict(kind="char", char=dict(len=L, allow=15, require=0, exclude=rng.choice([0, 16]), allowChars=[], requireSets=[], excludeChars=[]),
                       maxTrials=0, failRateOne=0, mode="paths", paths=3, maxLeaves=0, tag="very-long"))
    cfiles, ccells, cleaves = charfam.run_scenarios(ctx, cs, "c09c")
    cverd, _ = charfam.validate(ctx, cfiles)
    ws = [wlfam.tree_scen(rng, budget=1500 if quick else 8000) for _ in range(30 if quick else 400)]
    wfiles, wcells, wleaves = wlfam.run_scenarios(ctx, ws, "c09w")
    wverd, _ = wlfam.validate(ctx, wfiles)
    ctx.absorb(cverd, cfiles, charfam.describe_char)
    ctx.absorb(wverd, wfiles, wlfam.describe_wl)
    ctx.evaluations = injected + cleaves + wleaves
    ctx.nontrivial = injected
    ctx.cover.update(recipes=len(scen), injected_faults=sum(v["extra"]["error"] for v in verdicts), rechunked_runs=sum(v["extra"]["short"] for v in verdicts),
                     leaves_run_twice=cleaves + wleaves)
    # ... and again: other process id, other environment, other working directory, later (>= 20 s after the first run)
    import time
    wait = 20 - (time.time() - os.path.getmtime(first))
    if wait > 0:
        time.sleep(wait)
    second = ctx.path("fault-second.ndjson")
    other = os.path.join(ctx.scratch, "elsewhere")
    os.makedirs(other, exist_ok=True)
    env2 = dict(ctx.env, TZ="Pacific/Kiritimati", LANG="tr_TR.UTF-8", LC_ALL="tr_TR.UTF-8", HOME=other, USER="someoneelse", HOSTNAME="elsewhere", GOMAXPROCS="3")
    r2 = subprocess.run([drv, "faults", "-seed", str(ctx.seed), "-scen", sf, "-out", second, "-compare", first], cwd=other, env=env2, capture_output=True, text=True)
    if r2.returncode != 0:
        raise Undecided("faults rerun failed: " + r2.stderr[-500:])
    rv = ctx.validate("FaultTrace", second, tag="rerun")
    ctx.absorb([rv], [second], lambda l, f, why: dict(kind="rerun", why=why, event=vlib.nth_line(f, l), scenario=scen[vlib.nth_line(f, l)["id"]]))
    ctx.cover["reruns_in_another_process_and_environment"] = rv["extra"]["rerun"]
    # the library reads randomness through crypto/rand only: imports of the package as built
    r = subprocess.run(["go", "list", "-f", "{{join .Imports \"\\n\"}}", "."], cwd=vlib.REPO, env=ctx.env, capture_output=True, text=True)
    imps = set(r.stdout.split())
    ctx.cover["package_imports"] = sorted(imps)
    extra = imps - ALLOWED_IMPORTS
    if extra:
        ctx.drift("package spg imports %s beyond the specification's list" % sorted(extra))
    ctx.assumptions += ["crypto/rand.Reader IS the OS CSPRNG (Go's contract); the check pins that every choice is a function of the bytes read from that variable",
                        "go1.23: rand.Read returns the source's error and the library panics; observed in-process with recover"]
    return ("fault enumeration generated from the fault-free run of the real code: %d injected errors / re-chunkings over %d recipes validated by TLC; "
            "%d leaves of complete trees executed twice with different raw representatives" % (injected, len(scen), cleaves + wleaves))
