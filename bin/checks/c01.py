"""C01 - bounded draws are exactly uniform for every bound (DESIGN.md section 5, C01)."""
import os, subprocess
import vlib
from vlib import Undecided

from checks.drawfam import M, sweep, decide_by_sweep, count_sweep as drawfam_count


def run(ctx):
    quick = ctx.tier == "quick"
    ctx.rule = ("directed draws: bounds 1..300 (thorough 1..4096) + 2^k, 2^k+-1 + list/alphabet sizes + seeded bounds up to 2^32-1, "
                "tapes hitting 0,1,n-1,n,T-1,T,T+1,M-1,k*n+-1 and seeded words, singly and after rejected words; an event is "
                "non-trivial when its bound is not 1; distinct = distinct (bound, tape) pairs. Sweeps present all 2^32 raw words.")
    # (a) the specification itself
    ctx.model_check("MC_BigNat", "MC_BigNat.cfg", "BigNat == native arithmetic (limb base 8)", constants={"MaxV": 120 if quick else 500})
    for w in ([6] if quick else [4, 6, 8]):   # width 8: ~10 min; width 10 does not finish in 25 min here
        ctx.model_check("Draw", "MC_Draw.cfg", "every bound and every raw word at width %d: uniform fibres, >half accepted, reject is fresh" % w,
                        constants={"W": w}, workers=vlib.NCPU)
    # the threshold arithmetic for EVERY modulus and bound (no width at all), by the TLA+ proof system
    nob = ctx.tlapm("DrawProofs")
    ctx.cover["tlapm"] = "proofs not re-checked in this run (prover did not finish)" if not nob else ("DrawProofs.tla: %d obligations proved - for every M > 1 and 1 <= n < M the threshold is the largest multiple of n "
                          "below M, at most n words are rejected, and accepted words <-> (quotient, result) pairs is a bijection "
                          "(every result has exactly T/n raw preimages); the masking branch likewise" % nob)
    ok, txt = ctx.apalache("DrawLemma")
    if not ok:
        raise Undecided("Apalache refutes the threshold lemma of the specification (model-level)")
    ctx.cover["apalache"] = "DrawLemma.Inv (Struct /\\ Fwd /\\ Bwd) holds for all n in [1,2^32), all v,q,r: NoError"
    # the Draw machine itself at width 32: an inductive invariant (holds after any number of rejected words)
    ok0, _ = ctx.apalache("DrawApa", inv="IndInv", length=0, init="Init")
    ok1, _ = ctx.apalache("DrawApa", inv="IndInv", length=1, init="IndInv")
    if not (ok0 and ok1):
        raise Undecided("Apalache refutes the inductive invariant of the width-32 Draw machine (model-level)")
    ctx.cover["apalache_machine"] = ("DrawApa.IndInv is inductive at width 32 (symbolic bound and words): result in [0,n) and = word mod n, result only "
                                     "after an accepted word, rejected words are exactly those >= Threshold, powers of two never reject")
    # (b) the real code: directed draws
    nsh = 4 if quick else 12
    info = ctx.drv_json("draw", "-seed", ctx.seed, "-tier", ctx.tier, "-out", ctx.path("draw.ndjson"), "-shards", nsh)
    files = [ctx.path("draw.ndjson.%d" % k) for k in range(nsh)]
    verdicts = ctx.validate_many("DrawTrace", files)
    ctx.nontrivial = 0
    seen = set()
    deviating = {}
    deep_undecided = set()
    DEPTHCAP = 20 if quick else 130
    for f in files:
        for e in vlib.read_ndjson(f):
            if e.get("op") == "draw" and e.get("n") != [1]:
                seen.add((tuple(e["n"]), tuple(map(tuple, e["words"]))))
    ctx.nontrivial = len(seen)
    ctx.sample(vlib.nth_line(files[0], 40))
    for v, f in zip(verdicts, files):
        for b in v["bad"]:
            e = vlib.nth_line(f, b["l"])
            why = b["why"]
            if why.startswith("prop:"):
                ctx.violation("directed draw: %s (bound limbs %s)" % (why[5:], e.get("n")), dict(kind=e.get("op", "draw"), event=e))
            elif why.startswith("shape:"):
                n = sum(x << (15 * i) for i, x in enumerate(e.get("n", [])))
                depth = max(e.get("used", 1), 2) if ("continuation" in why or e.get("used", 1) > 1) else 1
                if depth <= DEPTHCAP:   # deeper positions cost depth x 2^32 reads to sweep: left to the pair rule (bounds above 2^31) and the drift line
                    deviating.setdefault(n, set()).add(depth)
                else:
                    deep_undecided.add((n, depth))
                ctx.drift("draw at bound %d: %s" % (n, why[6:]))
            else:
                raise Undecided("%s at %s:%d" % (why, f, b["l"]))
    # (iii) every random choice of every generator goes through the bounded draw
    import random
    drawfam_opaque = __import__("checks.drawfam", fromlist=["opaque_reads"]).opaque_reads
    drawfam_opaque(ctx, random.Random(ctx.seed), 65536 if quick else 262144)
    # (c) the counting statement measured on the real code
    drawfam_count(ctx, 3 << 30, 1, "a bound above 2^31 (a quarter of the raw values must be rejected)")
    plan = [(62, 1, "alphabet size of letters+digits"), (64, 1, "power of two (mask path)"), (18325, 1, "shipped word list size"),
            (62, 2, "continuation after a rejected word")]
    if not quick:
        plan += [(n, 1, "thorough bound") for n in (3, 5, 6, 7, 10, 61, 1000, 4096, 10129, 65537, (1 << 24) - 3)]
        plan += [(3, 2, "continuation"), (10129, 2, "continuation"), (62, 3, "second continuation")]
        plan += [((1 << 31) + 1, 1, "more than half of 2^32"), ((1 << 32) - 1, 1, "largest bound"), (3 << 30, 1, "quarter rejected"),
                 (3 << 30, 2, "continuation, quarter rejected")]
    # deviations found above are decided exactly, smallest bounds first (per-result histograms), then - only if nothing is decided
    # yet - the bounds too large for a histogram by the count condition, at the first position and at one continuation depth
    extra = 0
    for n in sorted(deviating):
        if n < 2 or extra >= 3 or (quick and n > (1 << 26)):
            continue
        extra += 1
        ds = sorted(deviating[n] | {1})
        for d in ds[:2] + ds[2:][-1:]:          # first position, first continuation seen, deepest position seen
            if (n, d) not in [(a, b) for a, b, _ in plan]:
                plan.append((n, d, "decides a deviation seen in directed draws"))
    for n, d, why in plan:
        if ctx.violations and "deviation" in why:
            continue             # already decided
        decide_by_sweep(ctx, n, d, why)
    big = [n for n in sorted(deviating) if n > (1 << 26)]
    for n in big[:2] + big[-1:]:
        depths = sorted(deviating[n] | {1})
        for d in depths[:1] + depths[1:2]:
            if ctx.violations:
                break            # already decided: further sweeps would only repeat the verdict
            drawfam_count(ctx, n, d, "decides a deviation seen in directed draws at a large bound")
    if deep_undecided and not ctx.violations:
        ctx.notes.append("deviations from the specification's sampler shape after more than %d rejected words (%s) are not decided by a sweep "
                         "(cost = depth x 2^32 reads); the pair rule decides such positions for bounds above 2^31" % (DEPTHCAP, sorted(deep_undecided)[:4]))
    if deviating and not ctx.violations:
        ctx.notes.append("directed draws deviate from the specification's sampler shape at %d bounds but every decision sweep is flat: "
                         "a different, unbiased sampler" % len(deviating))
    ctx.assumptions += ["Apalache/Z3 for the W=32 lemma", "step from the bijection [0,T) ~ [0,T/n) x [0,n) to equal fibre sizes is elementary arithmetic",
                        "bounds not swept are covered by the shaped relation (threshold, comparison, mask, byte order, width pinned per event) plus the lemma"]
    return ("TLC: Draw.tla exhaustively at small widths; Apalache: threshold lemma for all n at width 32; real code: %d directed draw "
            "events validated by TLC against Draw's relation, %d full-width sweeps of the real draw" % (info.get("events", 0), len(plan)))
