"""Shared machinery of the token-index checks (C11, C12)."""
import json, os, random, subprocess
import vlib
from vlib import Undecided

MAP = {1: ord("a"), 2: 0xE9, 3: 0x1F600}


def universe(ctx, quick):
    enc, dec = ctx.path("gen-tok-enc.ndjson"), ctx.path("gen-tok-dec.ndjson")
    if not os.path.exists(enc):
        ctx.tlc("Gen_Tokens", "Gen_Tokens.cfg", env={"VERIF_GEN_OUT": enc, "VERIF_GEN_OUT2": dec}, tag="gen-tok",
                constants={"MaxToks": 3, "MaxIdx": 4 if quick else 5})
        ctx.states -= 1
    return vlib.read_ndjson(enc), vlib.read_ndjson(dec)


def conc(cps):
    return [MAP.get(c, c) for c in cps]


def run(ctx, scenarios, name):
    shards = vlib.NCPU
    scen = ctx.path("tokscen-%s.ndjson" % name)
    with open(scen, "w") as f:
        for s in scenarios:
            f.write(json.dumps(s) + "\n")
    drv = ctx.build_harness()
    procs, files = [], []
    for k in range(shards):
        out = ctx.path("toktrace-%s-%d.ndjson" % (name, k))
        files.append(out)
        procs.append(ctx.spawn([drv, "tokens", "-scen", scen, "-out", out, "-shard", str(k), "-shards", str(shards)]))
    for p in procs:
        rc_, o_, e = ctx.wait(p)
        if p.returncode != 0:
            raise Undecided("tokens driver failed: " + (e or o_)[-1500:])
    files = [f for f in files if os.path.getsize(f) > 0]
    verdicts = ctx.validate_many("TokTrace", files)
    return files, verdicts


def gen_scenarios(rng, n):
    """Passwords produced by real recipes (ASCII and non-ASCII alphabets, words, separators, empty separators)."""
    o = lambda s: [ord(c) for c in s]
    words = ["one", "two", "kettő", "ábc", "ice-cream", "漢字", "😀x", "zebra", "größe", "e\u0301tude", "क्ष", "שָׁלוֹם", "ก็", "re\ufffdpl", "\ufffd", "nb\u00a0sp"]
    out = []
    for _ in range(n):
        if rng.random() < 0.4:
            c = dict(len=rng.randint(1, 12), allow=rng.choice([0, 4, 15, 3]), require=0, exclude=rng.choice([0, 16]),
                     allowChars=o(rng.choice(["", "űβ™λ", "é", "😀漢", "ab", "e\u0301a", "क\u094d", "a\ufffd", "\ufffd\u00a0"])), requireSets=[], excludeChars=[])
            if not c["allow"] and not c["allowChars"]:
                c["allowChars"] = o("xyz")
            out.append(dict(op="gen", char=c))
        else:
            sep = rng.choice([dict(sep="char", sepChar=[]), dict(sep="char", sepChar=o("-")), dict(sep="char", sepChar=o("¡")), dict(sep="char", sepChar=o("--⇒")), dict(sep="char", sepChar=o("\u0301")), dict(sep="char", sepChar=o("x\u0301")), dict(sep="char", sepChar=o("\ufffd")),
                              dict(sep="SFDigits1", sepChar=[]), dict(sep="SFNone", sepChar=[]), dict(sep="SFSymbols", sepChar=[])])
            d = dict(op="gen", words=[o(w) for w in rng.sample(words, rng.randint(1, 6))], len=rng.randint(1, 6), cap=rng.choice(["none", "first", "all", "random", "one"]))
            d.update(sep)
            out.append(d)
    return out


def boundary_scenarios():
    """Tokens at and beyond 255 characters, ASCII and 2-byte."""
    out = []
    for ch in (ord("w"), 0xE9, 0x1F600):
        for n in (1, 127, 128, 254, 255, 256, 257, 300, 511, 512):
            out.append(dict(op="gen", words=[[ch] * n, [ch] * 2], len=2, cap="none", sep="char", sepChar=[ord("-")]))
            out.append(dict(op="gen", words=[[ord("a"), ord("b")]], len=3, cap="first", sep="char", sepChar=[ch] * n))
            out.append(dict(op="gen", words=[[ch] * n], len=1, cap="none", sep="char", sepChar=[]))
    return out


def describe(l, f, why):
    return dict(kind="tokens", why=why, event=vlib.nth_line(f, l))
