"""C05 - wordlist password structure matches the recipe (atoms, capitalisation, separators)."""
import random
import vlib
from checks import wlfam


def shipped(rng, n):
    """Paths (first index, last index, seeded) through recipes on lists shaped like the shipped ones (large, lower-case)."""
    out = []
    words = ["w%da" % i if i % 7 else "v-%d-x" % i for i in range(0, 600)] + ["alpha", "omega", "größe", "ñandú", "o'neil", "ice-cream"]
    for _ in range(n):
        wl = dict(words=[wlfam.o(w) for w in words], nolist=0, len=rng.choice([1, 2, 4, 7]), cap=rng.choice(wlfam.SCHEMES + ["bogus", ""]))
        wl.update(rng.choice(wlfam.sep_variants(rng) + [dict(sep=p, sepChar=[]) for p in ("SFDigits1", "SFDigits2", "SFSymbols", "SFDigitsSymbols",
                                                                                         "SFDigitsNoAmbiguous1", "SFDigitsNoAmbiguous2")]))
        out.append(dict(kind="wl", wl=wl, maxTrials=0, failRateOne=0, mode="paths", paths=6, maxLeaves=0, tag="big-list-paths", reps=0))
    return out


def run(ctx):
    quick = ctx.tier == "quick"
    rng = random.Random(ctx.seed)
    ctx.rule = ("every leaf of complete choice trees of the real WLRecipe.Generate (small lists incl. uncapitalisable, pre-capitalised, hyphenated, multi-byte "
                "words; lengths 1-3; all schemes + unknown; constant, empty, multi-byte, preset, custom-recipe, failing separators) plus forced paths "
                "(all-first, all-last, seeded) on a 606-word list with lengths up to 7; non-trivial = a returned password with >= 2 tokens; distinct token sequences")
    ctx.model_check("MC_WordGen", "MC_WordGen.cfg", "WordGen: OutStructure, CapsShape, ErrIff, EntropyComputedOnce over recipe universe incl. L = 1, "
                    "empty and functional-empty separators", workers=vlib.NCPU, constants={"MaxLen": 2 if quick else 3})
    # the token assembly loop for EVERY length (Apalache, inductive): one atom per position, separators only between atoms
    ok0, _ = ctx.apalache("WordGenApa", inv="IndInv", length=0, init="Init")
    ok1, _ = ctx.apalache("WordGenApa", inv="IndInv", length=1, init="IndInv")
    if not (ok0 and ok1):
        raise vlib.Undecided("Apalache refutes the inductive invariant of the token assembly loop (model-level)")
    ctx.cover["apalache"] = ("WordGenApa.IndInv is inductive for symbolic Length up to 100000 and separators that are empty or not gap by gap: Length atoms, "
                             "at most one separator token per gap and none leading or trailing, at most one capital under the `one' scheme")
    scen = [wlfam.tree_scen(rng, uniform_only=False, uncap_prob=0.4, budget=2500 if quick else 12000) for _ in range(90 if quick else 900)]
    scen += shipped(rng, 40 if quick else 600) + wlfam.directed_trees(rng)
    scen += wlfam.line_scenarios(rng, quick, None if quick else wlfam.shipped_lists(ctx))
    files, cells, leaves = wlfam.run_scenarios(ctx, scen, "c05")
    verdicts, decided = wlfam.validate(ctx, files)
    ctx.evaluations = leaves
    seen = set()
    for f in files:
        with open(f) as fh:
            for line in fh:
                if line.startswith('{"op":"wleaf"') and '"kind":"ok"' in line:
                    e = vlib.json.loads(line)
                    if len(e["res"]["toks"]) >= 2:
                        seen.add(repr(e["res"]["toks"]))
    ctx.nontrivial = len(seen)
    ctx.cover.update(cells=cells, generate_runs=leaves)
    ctx.sample(vlib.nth_line(files[0], 1))
    ctx.sample(vlib.nth_line(files[0], 2))
    ctx.absorb(verdicts, files, wlfam.describe_wl)
    ctx.assumptions += ["strings.Title of each input word is supplied by the harness (environment function)", "lists containing the empty string are outside the domain"]
    return "TLC validates the token sequence, String(), Atoms()/Separators() split of %d real Generate runs against WordGen's structure relation" % leaves
