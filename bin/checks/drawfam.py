"""Shared: full-width sweeps of the real bounded draw and draw-level conformance for given bounds."""
import os, subprocess
import vlib
from vlib import Undecided

M = 1 << 32


def sweep(ctx, n, depth):
    """All 2^32 raw words presented to the REAL draw as the depth-th word; returns trace file or None."""
    drv = ctx.build_harness()
    shards = vlib.NCPU
    if n > (1 << 26):
        shards = 1  # wide histogram kept in one process
    step = M // shards
    hs = []
    procs = []
    for k in range(shards):
        h = ctx.path("hist-%d-%d-%d" % (n, depth, k))
        hs.append(h)
        lo, hi = k * step, (M if k == shards - 1 else (k + 1) * step)
        procs.append(subprocess.Popen([drv, "sweep", "-n", str(n), "-lo", str(lo), "-hi", str(hi), "-depth", str(depth), "-hist", h],
                                      cwd=ctx.scratch, env=ctx.env, stdout=subprocess.PIPE, stderr=subprocess.PIPE, text=True))
    rcs = []
    for p in procs:
        out, err = p.communicate(timeout=3000)
        rcs.append((p.returncode, err))
    if any(rc == 6 for rc, _ in rcs):
        return stuck(ctx, n, depth)
    if all(rc == 4 for rc, _ in rcs):
        return None  # nothing is ever rejected for this bound: there is no continuation
    if any(rc != 0 for rc, _ in rcs):
        raise Undecided("sweep n=%d failed: %s" % (n, [e[-300:] for rc, e in rcs if rc != 0][:1]))
    out = ctx.path("sweep-%d-%d.ndjson" % (n, depth))
    ctx.drv("sweepmerge", "-out", out, *hs)
    for h in hs:
        os.remove(h)
    ctx.evaluations += M
    return out


def stuck(ctx, n, depth):
    """A draw of the sweep rejected 4096 consecutive words of the scattered sequence: decided by DrawTrace!StuckWhy."""
    import json
    f = ctx.path("stuck-%d-%d.ndjson" % (n, depth))
    with open(f, "w") as fh:
        fh.write(json.dumps(dict(op="stuck", n=[(n >> (15 * i)) & 32767 for i in range(3)], depth=depth, rejected=4096)) + "\n")
    v = ctx.validate("DrawTrace", f, tag="stuck-%d-%d" % (n, depth))
    for b in v["bad"]:
        if b["why"].startswith("prop:"):
            ctx.violation("bound n=%d: %s (a draw at depth %d consumed 4096 further raw words without accepting one)" % (n, b["why"][5:], depth),
                          dict(kind="sweep-stuck", n=n, depth=depth, cmd="spgdrv sweep -n %d -depth %d" % (n, depth)))
    return None


def count_sweep(ctx, n, depth, why):
    """Count-only sweep of all 2^32 raw words (16 processes): decides bounds too large for a histogram by the necessary
    condition 'accepted count is a multiple of n and more than half'."""
    import json
    drv = ctx.build_harness()
    shards = vlib.NCPU
    step = M // shards
    procs = [subprocess.Popen([drv, "sweep", "-n", str(n), "-lo", str(k * step), "-hi", str(M if k == shards - 1 else (k + 1) * step), "-depth", str(depth),
                               "-countonly", "-hist", os.devnull], cwd=ctx.scratch, env=ctx.env, stdout=subprocess.PIPE, stderr=subprocess.PIPE, text=True)
             for k in range(shards)]
    acc = rej = oor = 0
    for p in procs:
        out, err = p.communicate(timeout=3000)
        if p.returncode == 6:
            for q in procs:
                q.kill()
            stuck(ctx, n, depth)
            return False
        if p.returncode == 4:
            return True
        if p.returncode != 0:
            raise Undecided("count sweep n=%d failed: %s" % (n, err[-300:]))
        j = json.loads([l for l in out.strip().split("\n") if l.startswith("{")][-1])
        acc, rej, oor = acc + j["accepted"], rej + j["rejected"], oor + j["outOfRange"]
    f = ctx.path("sweepcount-%d-%d.ndjson" % (n, depth))
    ctx.drv("sweepcount", "-out", f, "-n", n, "-accepted", acc, "-rejected", rej, "-outofrange", oor, "-depth", depth)
    ctx.evaluations += M
    v = ctx.validate("DrawTrace", f, tag="sweepcount-%d-%d" % (n, depth))
    ctx.cover.setdefault("count_sweeps", []).append(dict(n=n, depth=depth, accepted=acc, rejected=rej, reason=why))
    ok = True
    for b in v["bad"]:
        if b["why"].startswith("prop:"):
            ok = False
            ctx.violation("bound n=%d, raw word at depth %d: %s (accepted %d of 2^32 raw values, %d mod n = %d)" % (n, depth, b["why"][5:], acc, acc, acc % n),
                          dict(kind="sweepcount", n=n, depth=depth, accepted=acc, rejected=rej))
        elif b["why"].startswith("shape:"):
            ctx.drift("count sweep n=%d depth=%d: %s" % (n, depth, b["why"][6:]))
        else:
            raise Undecided("count sweep n=%d: %s" % (n, b["why"]))
    return ok


def decide_by_sweep(ctx, n, depth, why):
    f = sweep(ctx, n, depth)
    if f is None:
        return True
    v = ctx.validate("DrawTrace", f, tag="sweep-%d-%d" % (n, depth))
    ev = vlib.nth_line(f, 1)
    ctx.cover.setdefault("sweeps", []).append(dict(n=n, depth=depth, accepted=ev["acceptedDec"], per_result_min=ev["minDec"],
                                                   per_result_max=ev["maxDec"], reason=why))
    flat = True
    for b in v["bad"]:
        if b["why"].startswith("prop:"):
            flat = False
            ctx.violation("bound n=%d, raw word at depth %d of a draw: %s (per-result counts min=%s max=%s, accepted=%s of 2^32)"
                          % (n, depth, b["why"][5:], ev["minDec"], ev["maxDec"], ev["acceptedDec"]),
                          dict(kind="sweep", n=n, depth=depth, summary={k: ev[k] for k in ("nDec", "minDec", "maxDec", "acceptedDec")},
                               cmd="spgdrv sweep -n %d -depth %d over all 2^32 words" % (n, depth)))
        elif b["why"].startswith("shape:"):
            ctx.drift("sweep n=%d depth=%d: %s" % (n, depth, b["why"][6:]))
        else:
            raise Undecided("sweep n=%d: %s" % (n, b["why"]))
    return flat



def draw_conformance(ctx, bounds, what):
    """Directed draws of the REAL sampler for the given bounds, validated by TLC against Draw's relation; a deviation
    is decided exactly by a full-width sweep.  A biased bound is reported as a violation of the calling check's
    property (its own): with a non-uniform index no choice made with that bound can be uniform."""
    bounds = sorted({int(b) for b in bounds if 2 <= int(b) < (1 << 26)})[:12]
    if not bounds:
        return []
    out = ctx.path("drawconf.ndjson")
    ctx.drv_json("draw", "-seed", ctx.seed, "-bounds", ",".join(map(str, bounds)), "-out", out, "-shards", 1)
    f = out + ".0"
    v = ctx.validate("DrawTrace", f, tag="drawconf")
    dev = {}
    for b in v["bad"]:
        e = vlib.nth_line(f, b["l"])
        if e.get("op") != "draw":
            continue
        n = sum(x << (15 * i) for i, x in enumerate(e.get("n", [])))
        if b["why"].startswith("prop:"):
            ctx.violation("bounded draw with bound %d: %s" % (n, b["why"][5:]), dict(kind="draw", event=e))
        elif b["why"].startswith("shape:"):
            d = max(e.get("used", 1), 2) if ("continuation" in b["why"] or e.get("used", 1) > 1) else 1
            if d <= 20:
                dev.setdefault(n, set()).add(d)
    biased = []
    for n in sorted(dev)[:2]:
        ds = sorted(dev[n] | {1})
        for d in ds[:3] + ds[3:][-1:]:
            if not decide_by_sweep(ctx, n, d, "decides a deviation of the sampler at a bound used by " + what):
                biased.append(n)
    ctx.cover["draw_conformance_bounds"] = bounds
    return biased


def generator_scenarios(rng):
    """Generators whose every random choice must be a bounded draw: all schemes x lengths x separators, and character recipes."""
    o = lambda t: [ord(c) for c in t]
    out = []
    words = [o(w) for w in ("one", "two", "three", "kettő", "zebra", "größe", "mcdonald")]
    for cap in ("none", "first", "all", "random", "one"):
        for L in (3, 5, 6):
            for sep in (dict(sep="char", sepChar=o("-")), dict(sep="SFDigits1", sepChar=[]), dict(sep="SFSymbols", sepChar=[])):
                wl = dict(words=words, nolist=0, len=L, cap=cap)
                wl.update(sep)
                out.append(dict(kind="wl", wl=wl, maxTrials=0, failRateOne=1, mode="paths", paths=0, maxLeaves=0, tag="gen-%s-%d" % (cap, L), reps=0))
    for L in (33, 40, 70):   # more coin flips than one raw word has bits
        wl = dict(words=words, nolist=0, len=L, cap="random", sep="char", sepChar=o("-"))
        out.append(dict(kind="wl", wl=wl, maxTrials=0, failRateOne=1, mode="paths", paths=0, maxLeaves=0, tag="gen-random-%d" % L, reps=0))
    for c in (dict(len=7, allow=15, exclude=16), dict(len=5, allow=4, require=4), dict(len=3, allowChars=o("abcde"), requireSets=[o("ab")])):
        base = dict(len=1, allow=0, require=0, exclude=0, allowChars=[], requireSets=[], excludeChars=[])
        base.update(c)
        out.append(dict(kind="char", char=base, maxTrials=0, failRateOne=1, mode="paths", paths=0, maxLeaves=0, tag="gen-char", reps=0))
    return out


def opaque_reads(ctx, rng, nrand=65536):
    """C01 (iii): reads of the random source that no bounded draw announced, probed and decided by the pigeonhole rule (DrawTrace!OpaqueWhys)."""
    import json
    scen = generator_scenarios(rng)
    sf = ctx.path("opaque-scen.ndjson")
    with open(sf, "w") as f:
        for s_ in scen:
            f.write(json.dumps(s_) + "\n")
    out = ctx.path("opaque.ndjson")
    ctx.drv("opaque", "-seed", ctx.seed, "-scen", sf, "-out", out, "-nrand", nrand)
    v = ctx.validate("DrawTrace", out, tag="opaque")
    n = 0
    for b in v["bad"]:
        e = vlib.nth_line(out, b["l"])
        if b["why"].startswith("prop:"):
            n += 1
            ctx.violation("generator %s: %s (%d distinct outcomes over %d probed raw words, no redraw)" % (e["tag"], b["why"][5:], e["outcomes"], e["probed"]),
                          dict(kind="opaque-read", scenario=scen[e["id"]], event=e))
        elif b["why"].startswith("shape:"):
            ctx.drift("generator %s: %s" % (e["tag"], b["why"][6:]))
    ctx.cover["generators_probed_for_unannounced_reads"] = len(scen)
    return n
