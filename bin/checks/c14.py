"""C14 - recipes, word lists and separator functions are safe to share across goroutines."""
import json, os, re, subprocess
import vlib
from vlib import Undecided
from checks import charfam, wlfam


def sanitize(s):
    return re.sub(r'[^ -~]', '?', s).replace('"', "'").replace("\\", "/")[:700]


def run(ctx):
    quick = ctx.tier == "quick"
    ctx.rule = ("stress runs of a -race build on the REAL library: G goroutines (4, 16, and 12 on GOMAXPROCS 2; thorough up to 128) call Generate, Entropy, Alphabet, "
                "SuccessProbability and Size for 1.5-6 s per configuration on the SAME values: three character recipes (class requirements, overlapping custom "
                "sets), four wordlist recipes sharing one word list, the shared preset SFDigits1 (also called directly) and a constructed separator function "
                "with a requirement; every data-race report is an event, every returned value is validated; non-trivial = a value returned by a concurrent call")
    nob = ctx.tlapm("ApiProofs")
    ctx.cover["tlapm"] = "proofs not re-checked in this run (prover did not finish)" if not nob else ("ApiProofs.tla: %d obligations proved - the call protocol's invariant is inductive for ANY number of goroutines, objects and "
                          "calls: no conflicting access, shared derived fields never written, results a function of the fields at call time, a failed "
                          "call leaves nothing held" % nob)
    ctx.model_check("Api", "MC_Api.cfg", "every interleaving of 3 goroutines x 2 calls on 2 shared objects: NoConflictingAccess, SharedDerivedNeverWritten, "
                    "ResultIsFunctionOfFields", workers=vlib.NCPU)
    r = ctx.tlc("Api", "MC_Api_pointer.cfg", workers=4)
    if r["violated"] != "NoConflictingAccess":
        raise Undecided("non-vacuity witness failed: pointer receivers should violate NoConflictingAccess in the model")
    ctx.cover["non_vacuity"] = "with PointerReceiver = TRUE TLC exhibits two goroutines inside conflicting accesses to the shared derived fields"
    ctx.model_check("MC_Process", "MC_Process.cfg", "process-wide limits under every interleaving of 2 goroutines x 2 calls: LimitsAreTheCallers, "
                    "OnlyTheCallerChangesLimits, LibraryRemembersNothing", workers=vlib.NCPU)
    r = ctx.tlc("MC_Process", "MC_Process_raise2.cfg", workers=4)
    if r["violated"] != "ResultFollowsRecipeAndConfiguredLimits":
        raise Undecided("non-vacuity witness failed: limits raised during a call should make a concurrent call's outcome depend on it in the model")
    # deterministic part: specification-generated interleavings replayed with the draw hook as scheduler gate
    import random
    rng = random.Random(ctx.seed)
    sched_files, sched_v, nsched = [], [], 0
    for (W, D, take) in ((2, 4, 260 if quick else 10**9), (3, 2, 260 if quick else 10**9)):
        gen = ctx.path("gen-sched-%d-%d.ndjson" % (W, D))
        ctx.tlc("Gen_Sched", "Gen_Sched.cfg", env={"VERIF_GEN_OUT": gen}, constants={"W": W, "D": D}, tag="gen-sched-%d" % W)
        ctx.states -= 1
        scs = vlib.read_ndjson(gen)
        ctx.cover["schedule_universe_W%d_D%d" % (W, D)] = len(scs)
        rng.shuffle(scs)
        scs = scs[:take]
        sf = ctx.path("sched-%d.ndjson" % W)
        with open(sf, "w") as f:
            for x in scs:
                f.write(json.dumps(x) + "\n")
        procs, outs = [], []
        for k in range(vlib.NCPU):
            o = ctx.path("sched-%d-%d.ndjson" % (W, k))
            outs.append(o)
            procs.append(ctx.spawn([ctx.build_harness(), "sched", "-seed", ctx.seed, "-scen", sf, "-out", o, "-shard", k, "-shards", vlib.NCPU]))
        for p in procs:
            rc, so, se = ctx.wait(p)
            if rc != 0:
                raise Undecided("sched driver failed: " + (se or so)[-800:])
        outs = [o for o in outs if os.path.getsize(o) > 0]
        sched_files += outs
        nsched += len(scs)
    sched_v = ctx.validate_many("SchedTrace", sched_files)
    ctx.absorb(sched_v, sched_files, lambda l, f, why: dict(kind="schedule", why=why, event=vlib.nth_line(f, l)))
    ctx.cover["interleavings_replayed"] = nsched
    drv = ctx.build_harness(race=True)
    # (goroutines, ms per configuration, GOMAXPROCS, source): "go" = a goroutine-safe source written in Go, so that writes into the
    # library's read buffers are visible to the race detector (the kernel's writes are not)
    configs = ([(4, 1200, None, "os"), (16, 1500, None, "go"), (12, 800, "2", "go")] if quick else
               [(4, 6000, None, "os"), (16, 12000, None, "go"), (64, 12000, None, "os"), (16, 8000, "2", "go"), (8, 8000, "16", "os"), (32, 8000, None, "go"), (128, 6000, None, "go")])
    races = ctx.path("races.ndjson")
    cfiles, wfiles = [], []
    nraces = 0
    with open(races, "w") as rf:
        for i, (g, ms, procs, src) in enumerate(configs):
            oc, ow = ctx.path("stress-c-%d.ndjson" % i), ctx.path("stress-w-%d.ndjson" % i)
            env = dict(ctx.env, GORACE="halt_on_error=0 history_size=2")
            if procs:
                env["GOMAXPROCS"] = procs
            p = subprocess.run([drv, "stress", "-g", str(g), "-ms", str(ms), "-src", src, "-outc", oc, "-outw", ow], cwd=ctx.scratch, env=env, capture_output=True,
                               text=True, timeout=1200)
            calls = 0
            for f, lst in ((oc, cfiles), (ow, wfiles)):
                if os.path.exists(f) and os.path.getsize(f) > 0:
                    with open(f) as fh:
                        lines = fh.read().split("\n")
                    # a crashed run may leave a torn last line: keep whole cells only
                    ok = [ln for ln in lines if ln.endswith("}")]
                    last_end = max([k for k, ln in enumerate(ok) if '"cellend"' in ln[:40] or '"wcellend"' in ln[:40] or ln.startswith('{"id"')] + [-1])
                    ok = ok[: last_end + 1]
                    if ok:
                        open(f, "w").write("\n".join(ok) + "\n")
                        lst.append(f)
                        calls += len(ok)
            rf.write(json.dumps(dict(op="run", g=g, ms=ms, gomaxprocs=procs or "default", source=src, calls=calls, rc=p.returncode)) + "\n")
            blocks = re.split(r"={18}\n", p.stderr)
            for b in blocks:
                if "WARNING: DATA RACE" in b:
                    # a report counts only if the library is involved: its source files appear in the racing stacks
                    if not re.search(r"(go\.1password\.io/spg\.|/(util|char_gen|char_sets|char_strength|word_gen|password|token)\.go:)", b):
                        raise Undecided("the race detector reports a race inside the harness itself:\n" + b[:1500])
                    nraces += 1
                    if nraces <= 40:
                        rf.write(json.dumps(dict(op="race", g=g, text=sanitize(b))) + "\n")
            if p.returncode == 7 and "STRESS-HANG" in p.stderr:
                rf.write(json.dumps(dict(op="hang", g=g, gomaxprocs=procs or "default", text=sanitize(p.stderr[p.stderr.index("STRESS-WATCHDOG"):][:1500]))) + "\n")
            elif p.returncode == 8:
                raise Undecided("a stress run did not finish in time without any goroutine waiting inside the library (machine too loaded?)")
            elif "fatal error: concurrent map" in p.stderr or (p.returncode not in (0, 66) and "DATA RACE" not in p.stderr):
                rf.write(json.dumps(dict(op="crash", g=g, rc=p.returncode, text=sanitize(p.stderr[-600:]))) + "\n")
    rv = ctx.validate("RaceTrace", races)
    cverd = ctx.validate_many("CharTrace", cfiles)
    wverd = ctx.validate_many("WordTrace", wfiles)
    ctx.absorb([rv], [races])
    ctx.absorb(cverd, cfiles, charfam.describe_char)
    ctx.absorb(wverd, wfiles, wlfam.describe_wl)
    n = sum(v["extra"]["leaves"] for v in cverd + wverd) + sum(v["extra"]["calls"] for v in sched_v)
    ctx.evaluations = n
    ctx.nontrivial = n
    ctx.cover.update(stress_runs=len(configs), goroutines=[c[0] for c in configs], validated_concurrent_results=n, race_reports=nraces)
    ctx.sample(vlib.nth_line(races, 1))
    if cfiles:
        ctx.sample(vlib.nth_line(cfiles[0], 2))
    ctx.trusted.append("Go race detector (dynamic; reports only races on schedules that occurred)")
    ctx.assumptions += ["real schedules are those the Go scheduler produces under stress - not exhaustive; exhaustiveness is in the Api model only",
                        "the race detector is the sensor for conflicting accesses; copy semantics are also checked deterministically "
                        "(derived fields of the shared values stay nil, public fields unchanged)"]
    return ("Api.tla model-checked over every interleaving; %d stress runs of the -race build on shared values: %d concurrent results validated by TLC, "
            "%d race reports" % (len(configs), n, nraces))
