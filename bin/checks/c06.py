"""C06 - reported entropy never overstates: no password is likelier than 2^-Entropy."""
import random
import vlib
from checks import charfam, wlfam


def run(ctx):
    quick = ctx.tier == "quick"
    rng = random.Random(ctx.seed)
    ctx.rule = ("complete choice trees of the real Generate of both kinds: character recipes (TLC universe with overlapping/duplicated/emptied required sets, "
                "seeded small and class-flag recipes, MaxTrials 1-3) and wordlist recipes (lists with uncapitalisable and pre-capitalised words under every "
                "scheme, constant/empty/preset-like/custom separators incl. a caller-written one); per cell the exact probability of the likeliest token "
                "sequence vs 2^-Entropy(), equality where uniform, and Password.Entropy bit-identical to Entropy() on every leaf; non-trivial = decided cell")
    ctx.model_check("MC_WordGen", "MC_WordGen.cfg", "MinEntropyHolds: no password has more than |Paths|/EntropyCount paths (lists with uncapitalisable words); "
                    "UniformWhenCapitalisable", workers=vlib.NCPU, constants={"MaxLen": 2 if quick else 3})
    ctx.model_check("MC_CharGen", "MC_CharGen.cfg", "CharGen: count = |ValidStrings|, one tuple per string", workers=vlib.NCPU)
    ctx.model_check("MC_DyadicLog2", "MC_DyadicLog2.cfg", "log2 bracket self-check", constants={"MaxN": 200 if quick else 1000}, workers=vlib.NCPU)
    uni = charfam.tlc_universe(ctx, 3, 2)
    rng.shuffle(uni)
    cs = [charfam.concretize(s, rng) for s in uni[: (150 if quick else 2000)]]
    cs += charfam.seeded_small(ctx, rng, 40 if quick else 500) + charfam.seeded_flag_trees(ctx, rng, 8 if quick else 60)
    # long recipes and recipes with many required sets: no exact distribution, but Entropy() must not exceed log2 of the exact count
    from checks import c07
    cs += c07.long_recipes(rng, 6 if quick else 60) + c07.many_sets()
    cfiles, ccells, cleaves = charfam.run_scenarios(ctx, cs, "c06c")
    sf, sc_, sl = charfam.run_sequences(ctx, charfam.collision_sequences(), "c06")      # process-wide memo collisions (entropy of the wrong recipe)
    cfiles, ccells, cleaves = cfiles + sf, ccells + sc_, cleaves + sl
    cverd, cdec = charfam.validate(ctx, cfiles)
    ws = [wlfam.tree_scen(rng, uniform_only=(i % 3 != 0), uncap_prob=0.6, budget=3500 if quick else 15000) for i in range(80 if quick else 900)]
    ws += wlfam.directed_trees(rng)
    # long recipes (no complete tree): the choices of each single run already bound its password's probability from below
    for L in (31, 32, 33, 63, 64, 65, 100):
        for cap in ("random", "one", "all"):
            for sv in (dict(sep="char", sepChar=wlfam.o("-")), dict(sep="SFDigits1", sepChar=[])):
                wl = dict(words=[wlfam.o(w) for w in ("one", "two", "three", "kettő")], nolist=0, len=L, cap=cap)
                wl.update(sv)
                ws.append(dict(kind="wl", wl=wl, maxTrials=0, failRateOne=0, mode="paths", paths=4, maxLeaves=0, tag="long-paths", reps=0))
    wfiles, wcells, wleaves = wlfam.run_scenarios(ctx, ws, "c06w")
    wverd, wdec = wlfam.validate(ctx, wfiles)
    too_few = cdec < max(5, ccells // 10) or wdec < max(5, wcells // 10)
    ctx.evaluations = cleaves + wleaves
    ctx.nontrivial = cdec + wdec
    ctx.cover.update(char_cells=ccells, char_leaves=cleaves, char_cells_decided=cdec, wl_cells=wcells, wl_leaves=wleaves, wl_cells_decided=wdec)
    ctx.sample(vlib.nth_line(cfiles[0], 1))
    ctx.sample(vlib.nth_line(wfiles[0], 1))
    ctx.absorb(cverd, cfiles, charfam.describe_char)
    ctx.absorb(wverd, wfiles, wlfam.describe_wl)
    from checks import drawfam
    drawfam.draw_conformance(ctx, sorted(charfam.bounds_seen(cfiles) | wlfam.bounds_seen(wfiles)), "the recipes of this check")
    if too_few and not ctx.violations:
        raise vlib.Undecided("too few cells gave an exact distribution: %d/%d character, %d/%d wordlist" % (cdec, ccells, wdec, wcells))
    ctx.assumptions += ["C01 (index -> probability 1/n)", "float32 tolerance: 2 ulp (character recipes), 4 ulp (wordlist formula)",
                        "a caller-written separator function that under-reports its own entropy makes the recipe's value a lower bound only"]
    return ("exact max-probability per recipe from %d complete choice trees of the real code (%d leaves) compared by TLC with 2^-Entropy()"
            % (cdec + wdec, cleaves + wleaves))
