"""C04 - wordlist passwords: word, capitalisation and separator choices uniform and independent."""
import random
import vlib
from checks import wlfam, drawfam


def run(ctx):
    quick = ctx.tier == "quick"
    rng = random.Random(ctx.seed)
    ctx.rule = ("cells = complete choice trees of the REAL WLRecipe.Generate (every index of every draw incl. the separator generator's draws and the "
                "separator call made by Entropy()) for seeded recipes: lists of 2-7 words (multi-byte, hyphenated, duplicated, with capitalised twins), "
                "lengths 1-3, the five schemes and an unknown one, constant / empty / preset / custom-recipe separators; non-trivial = complete cell of an "
                "all-capitalisable list with uniform separators and >= 2 outputs; distinct recipes")
    ctx.model_check("MC_WordGen", "MC_WordGen.cfg", "WordGen machine: every password has exactly one choice path, #passwords = size^L x caps x seps^(L-1), "
                    "structure, caps shape, termination", workers=vlib.NCPU, constants={"MaxLen": 2 if quick else 3})
    scen = [wlfam.tree_scen(rng, uniform_only=(i % 4 != 0), uncap_prob=0.35, budget=4000 if quick else 15000) for i in range(110 if quick else 1200)]
    scen += wlfam.directed_trees(rng)
    scen += wlfam.line_scenarios(rng, quick, None if quick else wlfam.shipped_lists(ctx))
    files, cells, leaves = wlfam.run_scenarios(ctx, scen, "c04")
    verdicts, decided = wlfam.validate(ctx, files)
    too_few = decided < max(5, cells // 10)
    ctx.evaluations = leaves
    ctx.nontrivial = decided
    ctx.cover.update(cells=cells, leaves=leaves, cells_with_exact_distribution=decided)
    ctx.sample(vlib.nth_line(files[0], 1))
    ctx.sample(vlib.nth_line(files[0], 2))
    ctx.absorb(verdicts, files, wlfam.describe_wl)
    # without any knowledge of how the code reads the source: choices per position sampled under a pseudo-random byte stream
    wlfam.run_marg(ctx, wlfam.marg_scenarios(), "c04", "C04")
    drawfam.opaque_reads(ctx, rng, 16384)
    biased = drawfam.draw_conformance(ctx, wlfam.bounds_seen(files) | {18325, 10129}, "wordlist recipes")
    if too_few and not ctx.violations:    # (decided only now: a sampler that no longer reads whole words is the draw conformance's business)
        raise vlib.Undecided("only %d of %d cells gave an exact distribution (the scripted source no longer drives the generator?)" % (decided, cells))
    ctx.assumptions += ["C01 for index -> probability 1/n (the bounds used here, incl. the shipped list sizes, are checked against Draw.tla)",
                        "separator recipes with requirements are checked for structure only (an exhausted attempt budget yields an empty separator)"]
    return ("TLC sums exact leaf masses of %d complete choice trees of the real WLRecipe.Generate (%d leaves): all passwords equally likely and their "
            "number = size^L x capitalisations x separator values; WordGen model-checked" % (decided, leaves))
