"""C08 - wordlist-recipe entropy is exact and depends on the recipe alone."""
import random
import vlib
from checks import wlfam
from checks.c10 import lists


def run(ctx):
    quick = ctx.tier == "quick"
    rng = random.Random(ctx.seed)
    reps = 200 if quick else 3000
    ctx.rule = ("word lists (directed twin/uncapitalisable lists + seeded) x five schemes x separators {none, constant, SFDigits1, SFDigits2, custom recipe, "
                "custom recipe with requirement}; each multiset constructed %d times from permuted/repeated input, Entropy() called twice per construction; "
                "distinct outcomes validated; also the shipped lists; non-trivial = scheme one/random or a functional separator" % reps)
    ctx.model_check("MC_WordListCtor", "MC_WordListCtor.cfg", "uncapitalisable count independent of every visiting order (UncapIsSpec)", workers=vlib.NCPU,
                    constants={"MaxIn": 4 if quick else 5})
    r = ctx.tlc("MC_WordListCtor", "MC_WordListCtor_shipped.cfg", workers=vlib.NCPU, constants={"MaxIn": 3})
    if r["violated"] != "UncapIsSpec":
        raise vlib.Undecided("non-vacuity witness failed: counting inside the deleting pass should violate UncapIsSpec in the model")
    ctx.cover["non_vacuity"] = "with UncapCountedDuringPass = TRUE (the code before fix 47ebb02) TLC finds the two-order counterexample to UncapIsSpec"
    ctx.model_check("MC_WordGen", "MC_WordGen.cfg", "EntropyCount = number of passwords when all words capitalisable; min-entropy bound otherwise",
                    workers=vlib.NCPU, constants={"MaxLen": 2})
    seps = [dict(sep="char", sepChar=[]), dict(sep="char", sepChar=wlfam.o(" ")), dict(sep="SFDigits1", sepChar=[]), dict(sep="SFDigits2", sepChar=[]),
            dict(sep="customlist", sepChar=[], sepVals=[[], wlfam.o("-"), wlfam.o("."), wlfam.o("_")]),
            dict(sep="SFNone", sepChar=[]), dict(sep="SFDigits2", sepChar=wlfam.o("-")), dict(sep="SFNone", sepChar=wlfam.o("+")),
            dict(sep="recipe", sepChar=[], sepRecipe=dict(len=3, allow=8, require=0, exclude=0, allowChars=wlfam.o("é"), requireSets=[], excludeChars=[])),
            dict(sep="recipe", sepChar=[], sepRecipe=dict(len=4, allow=12, require=4, exclude=16, allowChars=[], requireSets=[], excludeChars=[]))]
    scen = []
    for ws in lists(rng, 36 if quick else 900):
        for _ in range(2 if quick else 4):
            wl = dict(words=[wlfam.o(w) for w in ws], nolist=0, len=rng.choice([1, 2, 3, 4, 7, 12]), cap=rng.choice(wlfam.SCHEMES + ["random", "one"]))
            wl.update(rng.choice(seps))
            scen.append(dict(kind="wl", wl=wl, maxTrials=0, failRateOne=0, mode="paths", paths=0, maxLeaves=0, tag="entropy-reps", reps=reps))
    big = ["w%04dx" % i for i in range(2054)] + ["42"]          # 2055 kept words (not a multiple of 8), exactly one of which cannot be capitalised
    for cap in ("random", "one"):
        scen.append(dict(kind="wl", wl=dict(words=[wlfam.o(w) for w in big], nolist=0, len=4, cap=cap, sep="char", sepChar=wlfam.o("-")), maxTrials=0, failRateOne=0,
                         mode="paths", paths=0, maxLeaves=0, tag="big-list-one-fixed-word", reps=400 if quick else 4000))
    # a word repeated as often as a narrow counter can count, next to its capitalised twin (a twin that survives costs the bonus)
    for k in (255, 256, 257, 512) + (() if quick else (1023, 1024, 4096)):      # (65 536 is in C10's thorough tier: one construction there, twelve here)
        for ws in (["polish"] * k + ["Polish", "one"], ["Polish"] * k + ["one", "polish"]):
            scen.append(dict(kind="wl", wl=dict(words=[wlfam.o(w) for w in ws], nolist=0, len=3, cap=rng.choice(["random", "one"]), sep="char", sepChar=[]),
                             maxTrials=0, failRateOne=0, mode="paths", paths=0, maxLeaves=0, tag="repeated-word-with-twin", reps=12))
    # the empty word is a word that title-casing does not change: no bonus, however capitalisable the others are
    for ws in (["", "alpha", "bravo", "charlie"], ["alpha", "", "Alpha", "bravo"], ["", "é"]):
        for cap in ("random", "one", "all"):
            scen.append(dict(kind="wl", wl=dict(words=[wlfam.o(w) for w in ws], nolist=0, len=4, cap=cap, sep="char", sepChar=wlfam.o("-")), maxTrials=0, failRateOne=0,
                             mode="paths", paths=0, maxLeaves=0, tag="empty-word", reps=20))
    # long recipes: the capitalisation bonus of `random' is Length bits also beyond 63 words, `one' log2(Length)
    for L in (31, 32, 33, 63, 64, 65, 100, 128, 1000):
        for cap in ("random", "one", "all"):
            wl = dict(words=[wlfam.o(w) for w in ("one", "two", "three", "kettő", "zebra")], nolist=0, len=L, cap=cap, sep="char", sepChar=wlfam.o("-"))
            scen.append(dict(kind="wl", wl=wl, maxTrials=0, failRateOne=0, mode="paths", paths=0, maxLeaves=0, tag="long-recipe", reps=3))
    files, cells, leaves = wlfam.run_scenarios(ctx, scen, "c08")
    # lists a content-keyed memo of NewWordList could confuse, constructed one after the other in one process (sizes and
    # capitalisability differ, so the entropies must)
    sf, sc_, sl = wlfam.run_sequences(ctx, wlfam.ctor_collision_sequences(), "c08")
    files, cells, leaves = files + sf, cells + sc_, leaves + sl
    verdicts, decided = wlfam.validate(ctx, files)
    ctx.evaluations = len(scen) * reps
    ctx.nontrivial = wlfam.count_cells(files, lambda c: c["wl"]["cap"] in ("one", "random") or c["sepKind"] != "char")
    ctx.cover.update(recipes=len(scen), constructions=len(scen) * reps, distinct_outcomes=cells)
    ctx.sample(vlib.nth_line(files[0], 1))
    ctx.absorb(verdicts, files, wlfam.describe_wl)
    ctx.assumptions += ["float32 tolerance 4 ulp (one rounding + up to three float32 additions in the formula)",
                        "real map iteration orders are sampled (per list >= %d constructions); exhaustive over orders in the model only" % reps]
    return ("TLC checks Entropy() of %d real recipes x %d constructions against log2 of size^L x capitalisation factor x separator count^(L-1), bit-identical "
            "across calls, permutations and repetitions of the input" % (len(scen), reps))
