"""C03 - every character password satisfies its recipe; exclusion always wins; Alphabet() exact."""
import random
import vlib
from checks import charfam


def run(ctx):
    quick = ctx.tier == "quick"
    rng = random.Random(ctx.seed)
    ctx.rule = ("class-flag recipes: allow/require/exclude triples (quick: all single/named combinations + seeded, thorough: all 2^15) x 5 custom-string "
                "variants (multi-byte, duplicated, overlapping, re-adding excluded characters) x lengths {1,2,8,40}; for each the REAL Alphabet() and "
                "Generate under tapes forcing the first index, the last index, a failing first attempt, and seeded paths (default MaxTrials/MaxFailRate); "
                "plus complete trees of small recipes; non-trivial = a call that returned a password or an alphabet of >= 2 characters")
    ctx.model_check("MC_CharGen", "MC_CharGen.cfg", "CharGen: OutValid, NoOutputUnlessDone, ErrIff over the recipe universe", workers=vlib.NCPU)
    ctx.model_check("MC_CharSets", "MC_CharSets.cfg", "all 2^15 class-flag triples x custom variants: exclusion wins, alphabet = (allowed + required) - excluded, "
                    "sorted listing is duplicate-free", workers=vlib.NCPU)
    nob = ctx.tlapm("CharSetsProofs")
    ctx.cover["tlapm"] = "proofs not re-checked in this run (prover did not finish)" if not nob else ("CharSetsProofs.tla: %d obligations proved for EVERY recipe record (unbounded): exclusion wins, required sets lie in the "
                          "alphabet, alphabet within (allowed + required) - excluded, a valid string has no excluded character and meets every "
                          "live required set" % nob)
    triples = charfam.flag_triples(rng, 900 if quick else 0, exhaustive=not quick)
    scen = []
    for (a, r, x) in triples:
        variants = [rng.randrange(charfam.NVARIANTS)] if quick else [0, rng.randrange(1, charfam.NVARIANTS)]
        for v in variants:
            L = rng.choice([1, 2, 8, 40, 96, 128])
            scen.append(charfam.flag_scen(a, r, x, v, L, 4 if quick else 6, "flag-paths"))
    uni = charfam.tlc_universe(ctx, 3, 2)
    rng.shuffle(uni)
    scen += [charfam.concretize(s, rng) for s in uni[: (100 if quick else 1500)]]
    scen += charfam.seeded_small(ctx, rng, 40 if quick else 400)
    scen += charfam.directed_small_trees()
    scen += charfam.directed_wide(not quick)
    files, cells, leaves = charfam.run_scenarios(ctx, scen, "c03", shards=vlib.NCPU)
    sf, sc_, sl = charfam.run_sequences(ctx, charfam.collision_sequences(), "c03")
    files, cells, leaves = files + sf, cells + sc_, leaves + sl
    verdicts, decided = charfam.validate(ctx, files)
    ctx.evaluations = leaves + cells
    nt = 0
    for f in files:
        for e in vlib.read_ndjson(f):
            if (e["op"] == "leaf" and e["res"]["kind"] == "ok") or (e["op"] == "cell" and len(e["alpha"]) >= 2):
                nt += 1
    ctx.nontrivial = nt
    ctx.exhaustive = not quick
    ctx.cover.update(cells=cells, generate_runs=leaves, flag_triples=len(triples), all_flag_triples=not quick)
    ctx.sample(vlib.nth_line(files[0], 1))
    ctx.sample(vlib.nth_line(files[0], 2))
    ctx.absorb(verdicts, files, charfam.describe_char)
    ctx.assumptions += ["utf8 projection of strings to code points by the harness (unicode/utf8)"]
    return ("TLC checks every recorded Alphabet() and password of the real library by membership against CharSets "
            "(%d recipes, %d Generate runs); CharSets theorems model-checked over all 2^15 flag triples" % (cells, leaves))
