"""C02 - character passwords are uniform over exactly the strings the recipe allows."""
import random
import vlib
from checks import charfam, drawfam


def run(ctx):
    quick = ctx.tier == "quick"
    rng = random.Random(ctx.seed)
    ctx.rule = ("cells = complete choice trees of the REAL CharRecipe.Generate (every index of every draw, MaxTrials 1..3, MaxFailRate 1) for "
                "recipes drawn from the TLC-generated universe (3 abstract characters mapped to ASCII/2/3/4-byte characters, 0-2 required sets with "
                "every overlap pattern, duplicates) plus seeded small and class-flag recipes; non-trivial = a complete cell with at least one returned "
                "password; distinct = distinct (recipe, MaxTrials)")
    ctx.model_check("MC_CharGen", "MC_CharGen.cfg", "CharGen machine: OutValid, one index tuple per valid string, count = |ValidStrings|, "
                    "rejected candidate fully discarded, termination", workers=vlib.NCPU)
    uni = charfam.tlc_universe(ctx, 3, 2 if quick else 3)
    rng.shuffle(uni)
    scen = [charfam.concretize(s, rng) for s in uni[: (220 if quick else 9000)]]
    scen += charfam.seeded_small(ctx, rng, 60 if quick else 2500)
    scen += charfam.seeded_flag_trees(ctx, rng, 10 if quick else 250)
    scen += charfam.directed_small_trees()
    scen += charfam.directed_wide(not quick)
    # long recipes whose single-attempt success probability is 1 to within float32: forced paths (first/last index, a failing first
    # attempt, seeded) - "no other string is ever returned" also on streams whose first candidate misses a requirement
    for (a, r, x, L) in ((15, 4, 0, 96), (7, 2, 0, 24), (15, 12, 16, 128), (7, 7, 0, 100), (4, 0, 0, 8), (15, 15, 16, 100)):
        scen.append(charfam.flag_scen(a, r, x, rng.randrange(charfam.NVARIANTS), L, 4, "long-flag-paths"))
        scen.append(charfam.flag_scen(a, r, x, 0, L, 4, "long-flag-paths"))
    files, cells, leaves = charfam.run_scenarios(ctx, scen, "c02")
    sf, sc_, sl = charfam.run_sequences(ctx, charfam.collision_sequences(), "c02")
    files, cells, leaves = files + sf, cells + sc_, leaves + sl
    verdicts, decided = charfam.validate(ctx, files)
    too_few = decided < max(5, cells // 10)     # (code that fetches words ahead leaves only the one-read cells decidable: about a quarter)
    ctx.evaluations = leaves
    ctx.nontrivial = decided
    ctx.cover.update(cells=cells, leaves=leaves, cells_with_exact_distribution=decided, universe_size=len(uni))
    ctx.sample(vlib.nth_line(files[0], 1))
    ctx.sample(vlib.nth_line(files[0], 2))
    ctx.absorb(verdicts, files, charfam.describe_char)
    # without any knowledge of how the code reads the source: the character at every position, sampled under a pseudo-random byte stream
    from checks import wlfam
    cj = lambda n: [0x4E00 + i for i in range(n)]
    def mc(L, **kw):
        base = dict(len=L, allow=0, require=0, exclude=0, allowChars=[], requireSets=[], excludeChars=[])
        base.update(kw)
        return dict(kind="char", char=base, maxTrials=0, failRateOne=0, mode="paths", paths=0, maxLeaves=0, tag="marg-char-%d-%s" % (L, len(kw.get("allowChars", [])) or kw.get("allow")))
    wlfam.run_marg(ctx, [mc(24, allowChars=[ord(x) for x in "0123456789abcdef"]), mc(20, allow=15, exclude=16), mc(40, allow=7), mc(24, allow=7, allowChars=[ord("-"), ord("_")]),
                         mc(70, allowChars=[ord("a"), ord("b")]), mc(8, allowChars=cj(256)), mc(33, allowChars=cj(4)), mc(12, allowChars=cj(8)), mc(10, allow=4)], "c02", "C02")
    # the index -> character step is only uniform if the draw itself is, for the bounds these recipes use
    drawfam.draw_conformance(ctx, charfam.bounds_seen(files), "character recipes")
    if too_few and not ctx.violations:    # (decided only now: a sampler that no longer reads whole words is the draw conformance's business)
        raise vlib.Undecided("only %d of %d cells gave an exact distribution (the scripted source no longer drives the generator?)" % (decided, cells))
    ctx.assumptions += ["C01 for the step index -> probability 1/n", "the verif hook pins the alphabet order (production order is a per-call "
                        "permutation of the same duplicate-free set; Alphabet() is compared with the specification's set)"]
    return ("TLC sums exact leaf masses of %d complete choice trees of the real Generate (%d leaves): support = the specification's valid set, "
            "all masses equal; CharGen model-checked over its recipe universe" % (decided, leaves))
