"""C16 - built-in classes, defaults, separator presets and shipped lists are as documented."""
import vlib


def run(ctx):
    ctx.rule = ("every exported class flag and all 32 flag combinations (Alphabet()), named combinations, token types and scheme names, NewCharRecipe/"
                "NewWLRecipe defaults for several lengths, MaxTrials/MaxFailRate, the complete choice tree of each of the 7 separator presets (every value "
                "with its exact probability and reported entropy), and every entry of both embedded lists next to the lines of its data file; "
                "non-trivial = every event; distinct events")
    ctx.model_check("MC_CharSets", "MC_CharSets.cfg", "class-table facts (sizes 26/26/10/6/7, overlaps of Ambiguous) and alphabet theorems over all flag triples",
                    workers=vlib.NCPU)
    out = ctx.path("builtin.ndjson")
    ctx.drv_json("builtins", "-seed", ctx.seed, "-repo", vlib.REPO, "-out", out)
    out2 = ctx.path("builtin-polluted.ndjson")      # a second process in which other recipes are used BEFORE the built-ins are first read
    ctx.drv_json("builtins", "-seed", ctx.seed, "-repo", vlib.REPO, "-out", out2, "-pollute-first")
    # a required class is exactly its documented (ASCII) members: complete small trees of recipes that allow other characters of the same
    # Unicode category next to a required class - a password without a documented member must never be returned
    from checks import charfam
    cls = [s_ for s_ in charfam.directed_small_trees() if s_["char"]["require"] and s_["char"]["allowChars"]]
    cfiles, ccells, cleaves = charfam.run_scenarios(ctx, cls, "c16cls", shards=2)
    cverd, _ = charfam.validate(ctx, cfiles)
    for vv, ff in zip(cverd, cfiles):
        for b in vv["bad"]:
            if b["why"] in ("P:C03:password-violates-its-recipe", "P:C03:Alphabet()-is-not-the-sorted-duplicate-free-set-of-usable-characters"):
                ctx.violation("a-required-built-in-class-is-not-exactly-its-documented-members (%s)" % b["why"][6:], charfam.describe_char(b["l"], ff, b["why"]))
    ctx.cover["class_membership_trees"] = ccells
    v = ctx.validate("BuiltinTrace", out)
    v2 = ctx.validate("BuiltinTrace", out2)
    ev = vlib.read_ndjson(out) + vlib.read_ndjson(out2)
    ctx.evaluations = len(ev)
    ctx.nontrivial = len(ev)
    ctx.exhaustive = True
    ctx.cover.update(events=len(ev), list_entries=v["extra"]["words"], presets=[e["name"] for e in ev if e["op"] == "preset"],
                     preset_leaves={e["name"]: e["leaves"] for e in ev if e["op"] == "preset"})
    ctx.sample(next(e for e in ev if e["op"] == "class" and e["flag"] == 16))
    ctx.sample({k: (w if k != "vals" else w[:2]) for k, w in next(e for e in ev if e["op"] == "preset" and e["name"] == "SFSymbols").items()})
    ctx.absorb([v, v2], [out, out2])
    ctx.assumptions += ["lower-casing of list entries is computed by the harness with the standard library", "the specification's constants ARE the documentation"]
    return "the specification's constants (class table, defaults, preset recipes, 200 / 1e-9) compared by TLC with %d observations of the real library" % len(ev)
