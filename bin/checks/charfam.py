"""Shared machinery of the character-recipe checks (C02 C03 C06 C07 C13 ...): scenario generation
(TLC universe + seeded), the chartree driver, CharTrace validation."""
import json, os, random, subprocess
import vlib
from vlib import Undecided

# includes characters whose UTF-8 encodings share a lead byte (é C3A9 / ü C3BC) or a continuation byte (é C3A9 / ũ C5A9)
CONCRETE = [ord(c) for c in "abZ7-q"] + [0xE9, 0xFC, 0x169, 0x171, 0x3B2, 0x2122, 0x6F22, 0x1F600, 0xE000, 0x10FFFF, 0x301]


def tlc_universe(ctx, nu=3, maxlen=2):
    out = ctx.path("gen-char-%d-%d.ndjson" % (nu, maxlen))
    if not os.path.exists(out):
        ctx.tlc("Gen_Char", "Gen_Char.cfg", env={"VERIF_GEN_OUT": out}, constants={"NU": nu, "MaxLen": maxlen}, tag="gen-char")
        ctx.states -= 1  # the generator run explores no behaviour
    return vlib.read_ndjson(out)


def concretize(sc, rng):
    """Map abstract characters 1..k of a TLC-generated scenario to concrete code points (seeded)."""
    table = {}
    pool = CONCRETE[:]
    rng.shuffle(pool)

    def m(x):
        if x >= 32:
            return x
        if x not in table:
            table[x] = pool[len(table)]
        return table[x]
    c = sc["char"]
    c2 = dict(c)
    c2["allowChars"] = [m(x) for x in c["allowChars"]]
    c2["excludeChars"] = [m(x) for x in c["excludeChars"]]
    c2["requireSets"] = [[m(x) for x in s] for s in c["requireSets"]]
    s2 = dict(sc)
    s2["char"] = c2
    return s2


def run_scenarios(ctx, scenarios, name, shards=None):
    """Run scenarios through the real library (chartree driver, sharded over processes); returns trace files."""
    shards = shards or min(vlib.NCPU, max(1, len(scenarios) // 4))
    scen = ctx.path("scen-%s.ndjson" % name)
    with open(scen, "w") as f:
        for i, s in enumerate(scenarios):
            if i % 4 == 1 and "prefault" not in s:      # every fourth cell comes after a call whose random source failed (recovered)
                s = dict(s, prefault=1 + (i // 4) % 6)
            f.write(json.dumps(s) + "\n")
    drv = ctx.build_harness()
    procs, files = [], []
    for k in range(shards):
        out = ctx.path("trace-%s-%d.ndjson" % (name, k))
        files.append(out)
        procs.append(ctx.spawn([drv, "chartree", "-seed", str(ctx.seed), "-scen", scen, "-out", out, "-shard", str(k), "-shards", str(shards)]))
    cells = leaves = 0
    for p in procs:
        rc_, o, e = ctx.wait(p)
        if p.returncode == 5:
            ctx.partial = "a library call did not return within the per-recipe deadline; the rest of that shard was skipped"
            try:
                idx = json.loads([l for l in (o if True else o_).strip().split("\n") if l.startswith("{")][-1]).get("timeout")
                ctx.partial += " (scenario %s: %s)" % (idx, json.dumps(scenarios[idx])[:400])
            except Exception:
                pass
        elif p.returncode != 0:
            raise Undecided("chartree driver failed: " + (e or o)[-1500:])
        last = [l for l in o.strip().split("\n") if l.startswith("{")]
        if last:
            j = json.loads(last[-1])
            cells += j["cells"]
            leaves += j["leaves"]
    return [f for f in files if os.path.getsize(f) > 0], cells, leaves


def describe_char(l, f, why):
    """Replay object: the cell (recipe, env) the offending line belongs to, and the line itself."""
    cell = None
    with open(f) as fh:
        for i, line in enumerate(fh, 1):
            if '"op":"cell"' in line[:20]:
                cell = json.loads(line)
            if i == l:
                ev = json.loads(line)
                break
    rec = {k: cell.get(k) for k in ("char", "maxTrials", "failRateOne", "alpha", "ent", "sp", "count", "tag")} if cell else None
    key = None
    return dict(kind="char", why=why, recipe=rec, event=ev if ev.get("op") != "cell" else "cell-level",
                rerun="spgdrv chartree -scen <file with this recipe as scenario>")


def validate(ctx, files):
    verdicts = ctx.validate_many("CharTrace", files)
    decided = sum(v["extra"]["decided"] for v in verdicts)
    return verdicts, decided


def seeded_small(ctx, rng, n):
    out = []
    for _ in range(n):
        np_ = rng.randint(2, 5)
        pool = rng.sample(CONCRETE, np_)
        L = rng.randint(1, 3)
        c = dict(len=L, allow=0, require=0, exclude=0, allowChars=[rng.choice(pool) for _ in range(rng.randint(0, np_ + 1))],
                 requireSets=[[rng.choice(pool) for _ in range(rng.randint(1, 2))] for _ in range(rng.randint(0, 2))], excludeChars=[])
        if rng.random() < 0.3:
            c["excludeChars"] = [rng.choice(pool)]
        if c["requireSets"] and rng.random() < 0.2:
            c["requireSets"].append(list(c["requireSets"][0]))
        mt = rng.randint(1, 3)
        if L == 3 and mt == 3:
            mt = 2
        out.append(dict(kind="char", char=c, maxTrials=mt, failRateOne=1, mode="tree", paths=0, maxLeaves=0, tag="seeded-small"))
    return out


FLAGS = dict(U=1, L=2, D=4, S=8, A=16)


def seeded_flag_trees(ctx, rng, n):
    out = []
    for _ in range(n):
        allow = rng.choice([4, 8, 12, 16, 20, 24, 28, 4 | 16, rng.randrange(32)])
        exclude = rng.choice([0, 16, 4, 8, rng.randrange(32)])
        c = dict(len=rng.randint(1, 2), allow=allow, require=0, exclude=exclude, allowChars=[], requireSets=[], excludeChars=[])
        if rng.random() < 0.35:
            c["require"] = rng.choice([4, 8, 12, 16])
        if rng.random() < 0.3:
            c["allowChars"] = [ord("a"), ord("0"), 0xE9]
        if rng.random() < 0.25:
            c["requireSets"] = [[ord(x) for x in "357"]]
        if rng.random() < 0.15:
            c["excludeChars"] = [ord(x) for x in "01"]
        out.append(dict(kind="char", char=c, maxTrials=1, failRateOne=1, mode="tree", paths=0, maxLeaves=12000, tag="flag-tree"))
    return out


def bounds_seen(files, limit=200000):
    """Bounds of the draws the real code announced in these traces."""
    seen = set()
    n = 0
    for f in files:
        with open(f) as fh:
            for line in fh:
                if line.startswith('{"op":"leaf"'):
                    n += 1
                    if n > limit:
                        return seen
                    for d in json.loads(line)["d"]:
                        seen.add(d[0])
    return seen


CUSTOM_VARIANTS = [
    dict(),
    dict(allowChars=[ord(c) for c in "a0"] + [0xE9, 0x6F22, 0xE9, ord("!")], requireSets=[[0xE9, 0x3B2], [ord("O"), ord("0"), ord("9")]]),
    dict(allowChars=[ord(c) for c in "0O1Il5S!"], excludeChars=[ord(c) for c in "ab5!"] + [0xE9]),
    dict(requireSets=[[ord(c) for c in "357"], [ord(c) for c in "7x"]], excludeChars=[ord("3")]),
    dict(allowChars=[0x1F600, 0x1F600, ord("z")], requireSets=[[0x1F600]], excludeChars=[ord("z")]),
    dict(requireSets=[[ord(c) for c in "abc"], [ord("a")]], allowChars=[ord(c) for c in "abcdef"]),     # nested required sets
    dict(requireSets=[[ord("7")], [0xE9, 0xFC]], allowChars=[0xFC, 0x169]),                           # shared UTF-8 bytes
    dict(allowChars=[ord("a"), ord("b"), ord("e"), 0x301], excludeChars=[ord("e")]),                   # decomposed text: e + combining acute, e excluded
    dict(allowChars=[ord("e"), ord("e"), 0x301, ord("o"), 0x308], requireSets=[[ord("e"), 0x301]], excludeChars=[0x301]),
    # letters and digits of the same Unicode categories as the ASCII classes (a required class is its ASCII members, nothing else)
    dict(allowChars=[0xC4, 0xDF, 0x663, 0xFF10, 0x391]),
    # characters that are not "printable": control, no-break space, soft hyphen, zero-width joiner, BOM, private use, replacement character
    dict(allowChars=[10, 0xA0, 0xAD, 0x200D, 0xFEFF, 0xE000, 0xFFFD, ord("a")], requireSets=[[0xFFFD, 0xA0]]),
]
NVARIANTS = len(CUSTOM_VARIANTS)


def directed_small_trees():
    """Complete trees (length 1-2) whose support decides membership questions that forced paths of long recipes cannot."""
    out = []
    def c(**kw):
        base = dict(len=1, allow=0, require=0, exclude=0, allowChars=[], requireSets=[], excludeChars=[])
        base.update(kw)
        return dict(kind="char", char=base, maxTrials=1, failRateOne=1, mode="tree", paths=0, maxLeaves=0, tag="directed-small")
    for req, extra in ((1, [0xC4, 0x391]), (2, [0xDF, 0xE9]), (4, [0x663, 0xFF10]), (3, [0xC4, 0xDF]), (5, [0x391, 0x663])):
        out.append(c(len=1, allow=req, require=req, allowChars=extra))          # only the ASCII members satisfy the required class
        out.append(c(len=2, allow=0, require=req, allowChars=extra))
    o = lambda t: [ord(x) for x in t]
    # required sets whose members, sorted, spell a range ("!-@", the symbol class "!*-.@_"): the characters strictly between the
    # neighbours of '-' are NOT members
    out.append(c(len=2, require=8, allowChars=o(",+")))
    out.append(c(len=2, allowChars=o("5+,"), requireSets=[o("!-@")]))
    out.append(c(len=2, allowChars=o("bcd"), requireSets=[o("a-e"), o("]^[")]))
    # a required set of more than 32 members in front of a small one; equal sets in front of a set with an excluded member
    out.append(c(len=2, requireSets=[[0x4E00 + i for i in range(33)], o("0123456789")]))
    out.append(c(len=2, requireSets=[o("ab"), o("ba"), o("c1")], excludeChars=o("1")))
    out.append(c(len=2, allow=2, exclude=16, requireSets=[o("0O"), o("1Iab")]))          # an emptied set in front of a set that loses members
    for extra in ([10, 0xA0, ord("a")], [0xAD, 0x200D, ord("b"), 0xFFFD], [0xFEFF, 0xE000, 0x10FFFF, ord("c")], [9, 0x3000, 0x2028]):
        out.append(c(len=1, allowChars=extra))                                   # every listed character can be drawn
        out.append(c(len=2, allowChars=extra, requireSets=[extra[:1]]))
    return out


def directed_wide(thorough=False):
    """Alphabets wider than a byte / a 16-bit index can count, and more required sets than a byte / a 16-bit mask has bits: complete
    one-character trees (every index drawn once: the last character as likely as the first) and forced paths."""
    out = []
    def c(mode, paths, mt, **kw):
        base = dict(len=1, allow=0, require=0, exclude=0, allowChars=[], requireSets=[], excludeChars=[])
        base.update(kw)
        return dict(kind="char", char=base, maxTrials=mt, failRateOne=1 if mt else 0, mode=mode, paths=paths, maxLeaves=0, tag="directed-wide")
    cjk = lambda n: [0x4E00 + i for i in range(n)]
    for n in (257, 300):
        out.append(c("tree", 0, 1, len=1, allowChars=cjk(n)))
        out.append(c("paths", 5, 0, len=3, allowChars=cjk(n), requireSets=[cjk(n)[-2:]]))
    out.append(c("tree", 0, 1, len=1, allow=15, allowChars=cjk(200)))               # classes + custom: 268 characters
    if thorough:
        # (65 836 characters were tried: TLC's set algebra over such an alphabet takes longer than the per-trace time limit)
        # (a 1300-character tree was also too slow under load: 0.75 s of TLC time per leaf)
        wide = [0x20000 + i for i in range(212)] + cjk(300)
        out.append(c("tree", 0, 1, len=1, allowChars=wide))          # 512 characters: a 9-bit index
        out.append(c("paths", 5, 0, len=2, allowChars=wide + [0x30000 + i for i in range(600)], requireSets=[wide[-1:]]))
    # k required sets, all but one of them satisfied by the first character of the alphabet: the all-first-index stream
    # must exhaust the attempts (error), the others must return a password that meets all k sets
    # (the library's count walks all 2^k subsets of the required sets twice per Generate: a 17-set cell costs about 3 s per call)
    for k in (9, 17) + ((18,) if thorough else ()):
        for special_last in ((True, False) if (thorough or k < 17) else (True,)):
            # (equal and nested sets: the specification counts over the minimal distinct ones, the code over all k by index)
            common = [[ord("a")] + [0x100 + j for j in range(i % 4)] for i in range(k - 1)]
            sets = common + [[ord("z")]] if special_last else [[ord("z")]] + common
            out.append(c("paths", 5 if k < 17 else 2, 0, len=8, allowChars=[ord("a"), ord("m"), ord("z")], requireSets=sets))
    return out


def flag_scen(allow, require, exclude, variant, L, paths, tag, env_default=True):
    c = dict(len=L, allow=allow, require=require, exclude=exclude, allowChars=[], requireSets=[], excludeChars=[])
    c.update({k: list(v) if k != "requireSets" else [list(x) for x in v] for k, v in CUSTOM_VARIANTS[variant].items()})
    return dict(kind="char", char=c, maxTrials=0 if env_default else 2, failRateOne=0 if env_default else 1, mode="paths", paths=paths,
                maxLeaves=0, tag=tag)


def flag_triples(rng, n, exhaustive=False):
    if exhaustive:
        return [(a, r, x) for a in range(32) for r in range(32) for x in range(32)]
    base = set()
    for a in (0, 1, 2, 4, 8, 16, 3, 15, 31):
        for r in (0, 1, 2, 4, 8, 16, 12):
            for x in (0, 1, 2, 4, 8, 16, 31):
                base.add((a, r, x))
    while len(base) < n:
        base.add((rng.randrange(32), rng.randrange(32), rng.randrange(32)))
    return sorted(base)


def collision_sequences():
    """Recipes that differ only where a naive textual cache key cannot tell them apart (a custom set split at a blank or '|', flag bits
    that overlap when packed), to be run ONE AFTER THE OTHER IN ONE PROCESS, in both orders: any process-wide memo keyed that way
    makes the second recipe inherit the first one's alphabet / count / probability."""
    def c(**kw):
        base = dict(len=2, allow=0, require=0, exclude=0, allowChars=[], requireSets=[], excludeChars=[])
        base.update(kw)
        return base
    o = lambda t: [ord(x) for x in t]
    pairs = [
        (c(len=2, allowChars=o("ab "), requireSets=[o("a b")]), c(len=2, allowChars=o("ab "), requireSets=[o("a"), o("b")])),
        (c(len=1, allowChars=o("ab "), requireSets=[o("a b")]), c(len=1, allowChars=o("ab "), requireSets=[o("a"), o("b")])),
        (c(len=3, allowChars=o("x y"), requireSets=[o("x y")]), c(len=3, allowChars=o("x y"), requireSets=[o("x"), o("y")])),
        (c(len=2, allowChars=o("a|b"), excludeChars=o("|")), c(len=2, allowChars=o("a"), excludeChars=o("b|"))),
        (c(len=2, allowChars=o("abcd,"), requireSets=[o("ab,cd")]), c(len=2, allowChars=o("abcd,"), requireSets=[o("ab"), o("cd")])),
        (c(len=3, allowChars=o("ab,"), requireSets=[o("a,b")]), c(len=3, allowChars=o("ab,"), requireSets=[o("a"), o("b")])),
        (c(len=4, allow=15, require=1), c(len=4, allow=15, exclude=16)),       # 16<<4 == 1<<8
        (c(len=5, allow=4, require=1), c(len=5, allow=4, exclude=16)),
        # the same "shape" (length, number of merely-allowed characters, sizes of the required sets) with another overlap pattern
        (c(len=2, allowChars=o("xyz"), requireSets=[o("ab"), o("cd")]), c(len=2, allowChars=o("xyz"), requireSets=[o("ab"), o("bc")])),
        (c(len=4, allowChars=o("x"), requireSets=[o("ab"), o("cd"), o("ef")]), c(len=4, allowChars=o("x"), requireSets=[o("ab"), o("bc"), o("ca")])),
        (c(len=2, allowChars=o("xy"), requireSets=[o("abc"), o("de")]), c(len=2, allowChars=o("xy"), requireSets=[o("abc"), o("cd")])),
        (c(len=700, allow=3, requireSets=[o("q")], allowChars=o("0123456789!@")), c(len=700, allow=3, requireSets=[o("z")], allowChars=o("0123456789.-"))),  # same |alphabet| and length
        # what one recipe excludes or allows by custom characters next to a class flag must not stick to that flag: the second recipe has
        # the same flags and needs exactly those characters
        (c(len=4, allow=15, exclude=16, excludeChars=o("abc234XYZ!@")), c(len=4, allow=15, exclude=16, require=6)),
        (c(len=5, allow=15, exclude=4, excludeChars=o("abcXYZ!@")), c(len=5, allow=15, exclude=4, require=3)),
        (c(len=4, allow=3, exclude=1, excludeChars=o("xyz")), c(len=4, allow=3, exclude=1, requireSets=[o("xyz")])),
        (c(len=4, allow=4, allowChars=o("xyz"), exclude=16), c(len=4, allow=4, exclude=16, excludeChars=o("2"))),
        (c(len=4, allow=12, require=4, requireSets=[o("ab")]), c(len=4, allow=12, require=4)),
    ]
    seqs = []
    for a, b in pairs:
        mk = lambda r, mode: dict(kind="char", char=r, maxTrials=0 if r["len"] > 3 else 2, failRateOne=0 if r["len"] > 3 else 1,
                                  mode=("paths" if r["len"] > 3 else "tree"), paths=3 if r["len"] <= 64 else 0, maxLeaves=0, tag="collision-pair")
        seqs.append([mk(a, 0), mk(b, 0), mk(a, 0)])
        seqs.append([mk(b, 0), mk(a, 0), mk(b, 0)])
    return seqs


def run_sequences(ctx, seqs, name):
    """Each sequence runs in its own fresh process, in order (process-wide state carries over within a sequence only)."""
    files, cells, leaves = [], 0, 0

    def one(k):
        return run_scenarios(ctx, seqs[k], "%s-seq%d" % (name, k), shards=1)
    for f, c, l in vlib.parallel(one, range(len(seqs)), workers=vlib.NCPU):
        files += f
        cells += c
        leaves += l
    return files, cells, leaves
