#!/usr/bin/env python3
"""Shared plumbing for the spg verification checks (see DESIGN.md section 7).

A check = build the Go harness against /repo's *current working tree* (tag verif),
run drivers that execute the real library and record NDJSON traces, model-check the
TLA+ specification with TLC/Apalache, validate the recorded traces against the
specification with TLC, write evidence, exit 0 / 1 (+VIOLATION line) / 2 (undecided).
"""
import atexit, concurrent.futures, json, os, re, shutil, subprocess, sys, tempfile, time

VERIF = os.path.dirname(os.path.dirname(os.path.abspath(__file__)))
REPO = os.environ.get("VERIF_REPO", "/repo")
SPEC = os.path.join(VERIF, "spec")
HARNESS = os.path.join(VERIF, "harness")
TLA_CP = "/opt/veriftools/tla/tla2tools.jar:/opt/veriftools/tla/CommunityModules-deps.jar"
NCPU = os.cpu_count() or 4
# development-time overrides (bin/selftest): registered commands never set these
EVDIR = os.environ.get("VERIF_EVIDENCE_DIR", os.path.join(VERIF, "evidence"))
OUTDIR = os.environ.get("VERIF_OUT_DIR", os.path.join(VERIF, "out"))

GOENV = dict(GOFLAGS="-mod=mod", GOPROXY="off", GOSUMDB="off", GOTOOLCHAIN="local")


class Undecided(Exception):
    pass


class Ctx:
    def __init__(self, pid, tier, level="model_checking"):
        self.pid, self.tier, self.level = pid, tier, level
        self.seed = int(os.environ.get("VERIF_SEED", "1") or "1")
        self.t0 = time.time()
        base = os.environ.get("VERIF_SCRATCH") or tempfile.gettempdir()
        self.scratch = tempfile.mkdtemp(prefix="spgverif-%s-" % pid, dir=base)
        if not os.environ.get("VERIF_KEEP"):   # development: keep the scratch directory (traces, drivers) for inspection
            atexit.register(lambda: shutil.rmtree(self.scratch, ignore_errors=True))
        self.states = 0
        self.transitions = 0
        self.traces = 0
        self.events = 0
        self.evaluations = 0
        self.nontrivial = 0
        self.samples = []
        self.violations = []
        self.drifts = []
        self.known_hits = []
        self.notes = []
        self.cover = {}
        self.assumptions = []
        self.trusted = ["TLC 2026.09.04 (tla2tools 1.8.0)", "CommunityModules Json/IOUtils", "Go toolchain + standard library",
                        "harness projections (utf8, big.Int->limbs, float32->dyadic) and scripted crypto/rand.Reader",
                        "verif-tagged hooks in /repo (draw observer, canonical alphabet order, accessors)"]
        self.checker_cmds = []
        self.exhaustive = False
        self.rule = ""
        self._drv = None
        self.partial = None
        self._nrep = 0
        self.env = dict(os.environ)
        self.env.update(GOENV)
        self.env["TMPDIR"] = self.scratch
        self.known = load_known()

    # ---------- building ----------
    def build_harness(self, race=False):
        if self._drv and not race:
            return self._drv
        h = os.path.join(self.scratch, "harness-race" if race else "harness")
        shutil.copytree(HARNESS, h)
        gm = open(os.path.join(h, "go.mod")).read().replace("=> /repo", "=> " + REPO)
        open(os.path.join(h, "go.mod"), "w").write(gm)
        shutil.copy(os.path.join(REPO, "go.sum"), os.path.join(h, "go.sum"))
        out = os.path.join(self.scratch, "spgdrv-race" if race else "spgdrv")
        cmd = ["go", "build", "-tags", "verif"] + (["-race"] if race else []) + ["-o", out, "."]
        r = subprocess.run(cmd, cwd=h, env=self.env, capture_output=True, text=True)
        if r.returncode != 0:
            raise Undecided("harness does not build against %s:\n%s" % (REPO, r.stderr[-3000:]))
        if not race:
            self._drv = out
        return out

    def build_opgen(self):
        out = os.path.join(self.scratch, "opgen")
        r = subprocess.run(["go", "build", "-o", out, "./cmd/opgen"], cwd=REPO, env=self.env, capture_output=True, text=True)
        if r.returncode != 0:
            raise Undecided("opgen does not build:\n" + r.stderr[-2000:])
        return out

    def drv(self, *args, timeout=1800, binary=None, env=None, check=True):
        exe = binary or self.build_harness()
        e = dict(self.env)
        if env:
            e.update(env)
        r = subprocess.run([exe] + [str(a) for a in args], cwd=self.scratch, env=e, capture_output=True, text=True, timeout=timeout)
        if check and r.returncode != 0:
            raise Undecided("driver %s failed rc=%d: %s" % (args[0], r.returncode, (r.stderr or r.stdout)[-2000:]))
        return r

    def spawn(self, argv, env=None, stderr_path=None):
        """Start a driver with stdout/stderr going to files (never pipes: the library prints diagnostics on stdout,
        and a full pipe would block the library call that prints them)."""
        self._nspawn = getattr(self, "_nspawn", 0) + 1
        base = os.path.join(self.scratch, "proc-%d" % self._nspawn)
        fo, fe = open(base + ".out", "w+"), open(base + ".err", "w+")
        # stderr_path: a device the driver's standard error is connected to instead (e.g. /dev/full: every write fails)
        fe2 = open(stderr_path, "w") if stderr_path else None
        p = subprocess.Popen([str(a) for a in argv], cwd=self.scratch, env=env or self.env, stdout=fo, stderr=fe2 or fe, text=True)
        if fe2:
            fe2.close()
        p._files = (fo, fe, base)
        return p

    def wait(self, p, timeout=3000):
        """Returns (returncode, tail of stdout, tail of stderr)."""
        try:
            p.wait(timeout=timeout)
        except subprocess.TimeoutExpired:
            p.kill()
            raise Undecided("driver timed out")
        fo, fe, base = p._files
        outs = []
        for f in (fo, fe):
            f.flush()
            f.seek(0, 2)
            n = f.tell()
            f.seek(max(0, n - 20000))
            outs.append(f.read())
            f.close()
        for suffix in (".out", ".err"):
            try:
                os.remove(base + suffix)
            except OSError:
                pass
        return p.returncode, outs[0], outs[1]

    def drv_json(self, *args, **kw):
        r = self.drv(*args, **kw)
        last = [l for l in r.stdout.strip().split("\n") if l.strip()]
        try:
            return json.loads(last[-1]) if last else {}
        except Exception:
            return {}

    def path(self, name):
        return os.path.join(self.scratch, name)

    # ---------- TLC ----------
    def _specdir(self):
        d = os.path.join(self.scratch, "spec")
        if not os.path.isdir(d):
            shutil.copytree(SPEC, d)
        return d

    def tlc(self, module, cfg, env=None, workers=1, timeout=None, xmx="4g", extra=None, constants=None, tag=None):
        timeout = timeout or (1500 if self.tier == "quick" else 7200)   # (a loaded machine makes TLC several times slower)
        """Run TLC; returns dict(ok, generated, distinct, out, violated)."""
        d = self._specdir()
        tag = tag or ("%s-%d" % (module, len(self.checker_cmds)))
        meta = os.path.join(self.scratch, "meta-" + tag)
        cfgpath = os.path.join(d, cfg)
        if constants:
            txt = open(cfgpath).read()
            for k, v in constants.items():
                txt, n = re.subn(r"(?m)^(\s*%s\s*=\s*).*$" % re.escape(k), lambda m: m.group(1) + str(v), txt)
                if n == 0:
                    raise Undecided("constant %s not in %s" % (k, cfg))
            cfgpath = os.path.join(d, "gen-%s.cfg" % tag)
            open(cfgpath, "w").write(txt)
        e = dict(self.env)
        e["JAVA_TOOL_OPTIONS"] = "-Xss512m -Xmx%s -Djava.io.tmpdir=%s" % (xmx, self.scratch)
        if env:
            e.update({k: str(v) for k, v in env.items()})
        cmd = ["java", "-XX:+UseParallelGC", "-cp", TLA_CP, "tlc2.TLC", "-workers", str(workers), "-metadir", meta,
               "-config", cfgpath] + (extra or []) + [os.path.join(d, module + ".tla")]
        self.checker_cmds.append("tlc -workers %s -config %s %s.tla" % (workers, os.path.basename(cfgpath), module))
        t1 = time.time()
        try:
            r = subprocess.run(cmd, cwd=d, env=e, capture_output=True, text=True, timeout=timeout)
        except subprocess.TimeoutExpired:
            raise Undecided("TLC timed out on %s/%s" % (module, cfg))
        if os.environ.get("VERIF_DEBUG"):
            print("  [tlc %s %s: %.1fs]" % (module, tag, time.time() - t1), file=sys.stderr)
        out = r.stdout + r.stderr
        shutil.rmtree(meta, ignore_errors=True)
        m = re.search(r"(\d+) states generated, (\d+) distinct states found", out)
        gen, dist = (int(m.group(1)), int(m.group(2))) if m else (0, 0)
        ok = "Model checking completed. No error has been found." in out
        violated = None
        mv = re.search(r"Error: Invariant (\S+) is violated", out) or re.search(r"Error: Action property (\S+) is violated", out) \
            or re.search(r"Error: Temporal properties were violated", out)
        if mv:
            violated = mv.group(1) if mv.groups() else "temporal"
        if not ok and not violated:
            raise Undecided("TLC failed on %s/%s:\n%s" % (module, cfg, out[-3000:]))
        self.states += dist
        self.transitions += gen
        return dict(ok=ok, generated=gen, distinct=dist, out=out, violated=violated)

    def model_check(self, module, cfg, what, workers=None, **kw):
        """An MC run of the specification that must pass; a model-level failure is never a VIOLATION
        of the code by itself (exit 2: the specification and its property disagree)."""
        r = self.tlc(module, cfg, workers=workers or min(NCPU, 8), **kw)
        if not r["ok"]:
            raise Undecided("specification check %s/%s fails (%s) - model-only counterexample, not a verdict on the code:\n%s"
                            % (module, cfg, r["violated"], r["out"][-2500:]))
        self.cover.setdefault("model_runs", []).append(dict(module=module, cfg=cfg, what=what, distinct_states=r["distinct"],
                                                           states_generated=r["generated"]))
        return r

    def validate(self, module, tracefile, tag=None, timeout=None, env=None):
        """Validate one recorded NDJSON trace with a trace specification; returns the verdict record."""
        tag = tag or os.path.basename(tracefile)
        res = os.path.join(self.scratch, "res-%s-%s.json" % (module, tag))
        e = {"VERIF_TRACE": tracefile, "VERIF_RESULT": res}
        if env:
            e.update(env)
        r = self.tlc(module, "Trace.cfg", env=e, workers=1, timeout=timeout, tag="%s-%s" % (module, tag))
        if not r["ok"] or not os.path.exists(res):
            raise Undecided("trace validation %s on %s did not complete:\n%s" % (module, tracefile, r["out"][-3000:]))
        v = json.load(open(res))
        nlines = sum(1 for _ in open(tracefile))
        if v.get("lines") != nlines:
            raise Undecided("trace validation consumed %s of %d lines" % (v.get("lines"), nlines))
        self.events += nlines
        self.traces += 1
        return v

    def validate_many(self, module, files, **kw):
        with concurrent.futures.ThreadPoolExecutor(max_workers=NCPU) as ex:
            futs = [ex.submit(self.validate, module, f, **kw) for f in files]
            return [f.result() for f in futs]

    def tlapm(self, module, timeout=150, threads=6):
        """Re-check the machine-checked proofs of a module with the TLA+ proof system; returns the number of obligations proved, or 0 when
        the prover could not finish (loaded machine, back end out of memory): the proofs are a supplement to what TLC and Apalache check on
        the same definitions and no verdict on the code depends on them, so an unfinished re-check is recorded, not fatal."""
        import signal
        d = self._specdir()
        e = dict(self.env)

        def limits():
            try:
                import resource
                resource.setrlimit(resource.RLIMIT_AS, (12 << 30, 12 << 30))   # a diverging SMT back end must not eat the machine
            except Exception:
                pass
        m, txt = None, ""
        for stretch in (1, 3):   # a loaded machine can make a back end run out of its time slice: one retry with longer time-outs
            cmd = ["tlapm", "--threads", str(threads), "--cleanfp"] + (["--stretch", str(stretch)] if stretch > 1 else []) + [module + ".tla"]
            self.checker_cmds.append(" ".join(cmd))
            pr = subprocess.Popen(cmd, cwd=d, env=e, stdout=subprocess.PIPE, stderr=subprocess.STDOUT, text=True, start_new_session=True,
                                  preexec_fn=limits)
            try:
                txt, _ = pr.communicate(timeout=timeout * stretch)
            except subprocess.TimeoutExpired:
                txt = "timed out"
            finally:
                try:
                    os.killpg(pr.pid, signal.SIGKILL)   # the back-end provers are children of tlapm; none may outlive the call
                except OSError:
                    pass
                try:
                    pr.communicate(timeout=10)
                except Exception:
                    pass
            m = re.search(r"All (\d+) obligations? proved", txt or "")
            shutil.rmtree(os.path.join(d, ".tlacache"), ignore_errors=True)
            if m:
                break
        if not m:
            keep = [l for l in (txt or "").split("\n") if not l.startswith(("Called from", "Raised at"))]
            self.notes.append("tlapm did not finish re-checking the proofs of %s.tla in this run (not a verdict; the same statements are "
                              "model-checked by TLC/Apalache): %s" % (module, " ".join(keep)[-300:]))
            print("NOTE: property=%s tlapm did not finish re-checking %s.tla in this run" % (self.pid, module))
            return 0
        self.notes.append("tlapm: all %s proof obligations of %s.tla proved" % (m.group(1), module))
        return int(m.group(1))

    def apalache(self, module, inv="Inv", length=0, init="Init", nxt="Next", timeout=600):
        d = self._specdir()
        out = os.path.join(self.scratch, "apalache-" + module)
        e = dict(self.env)
        e["JVM_ARGS"] = "-Djava.io.tmpdir=%s" % self.scratch
        cmd = ["apalache-mc", "check", "--init=" + init, "--next=" + nxt, "--inv=" + inv, "--length=%d" % length,
               "--out-dir=" + out, module + ".tla"]
        self.checker_cmds.append(" ".join(cmd[:6] + [module + ".tla"]))
        try:
            r = subprocess.run(cmd, cwd=d, env=e, capture_output=True, text=True, timeout=timeout)
        except subprocess.TimeoutExpired:
            raise Undecided("apalache timed out on " + module)
        shutil.rmtree(out, ignore_errors=True)
        txt = r.stdout + r.stderr
        if "The outcome is: NoError" in txt:
            return True, txt
        if "The outcome is: Error" in txt:
            return False, txt
        raise Undecided("apalache failed on %s:\n%s" % (module, txt[-2000:]))

    def env_variants(self):
        """What the library's source consults besides its arguments (driver `envprobe`, a syntactic scan): for the environment variables it
        names, a few settings under which the caller re-runs its scenarios; everything else (the clock, other files, computed names) is a drift line."""
        if getattr(self, "_envp", None) is None:
            try:
                self._envp = self.drv_json("envprobe", "-repo", REPO)
            except Exception:
                self._envp = dict(env=[], calls=[], dynamic=False)
            p = self._envp
            if p.get("env") or p.get("calls") or p.get("dynamic"):
                self.drift("the library's source consults its environment: variables %s, calls %s%s" %
                           (p.get("env"), p.get("calls"), ", and variable names computed at run time" if p.get("dynamic") else ""))
            self.cover["environment_consulted_by_the_source"] = dict(variables=p.get("env", []), calls=p.get("calls", []))
        names = self._envp.get("env") or []
        if not names:
            return []
        return [{n: v for n in names} for v in ("1", "true", "debug", "/dev/stderr")]

    # ---------- verdicts ----------
    def sample(self, s):
        if len(self.samples) < 6:
            self.samples.append(s)

    def violation(self, what, replay):
        key = finding_key(self.pid, what, replay)
        for k in self.known.get("open", []):
            if k.get("property") == self.pid and k.get("key") == key:
                if key not in self.known_hits:
                    self.known_hits.append(key)
                    print("KNOWN-FINDING: property=%s %s" % (self.pid, k.get("what", what)))
                return
        self._nrep += 1
        rd = os.path.join(OUTDIR, "replay")
        os.makedirs(rd, exist_ok=True)
        path = os.path.join(rd, "%s-%s-%d-%d.json" % (self.pid, self.tier, self.seed, self._nrep))
        json.dump(dict(property=self.pid, what=what, seed=self.seed, tier=self.tier, repo=REPO, replay=replay), open(path, "w"), indent=1)
        self.violations.append(dict(what=what, replay=path))
        if len(self.violations) <= 20:
            print("VIOLATION property=%s replay=%s" % (self.pid, path))
            print("  what: %s" % what)
        sys.stdout.flush()

    def drift(self, what):
        # (a set next to the list: thousands of drift lines must not cost quadratic time; the evidence keeps the first 2000)
        if not hasattr(self, "_driftset"):
            self._driftset = set(self.drifts)
            self.ndrifts = len(self.drifts)
        if what in self._driftset:
            return
        self._driftset.add(what)
        self.ndrifts += 1
        if len(self.drifts) < 2000:
            self.drifts.append(what)
        if self.ndrifts <= 10:
            print("SPEC-DRIFT: property=%s %s" % (self.pid, what))

    def absorb(self, verdicts, files, describe=None):
        """Route trace-validation verdict lines: 'P:<pid>:what' contradicts property <pid> (a VIOLATION only for this
        check's own property; other properties' findings are their checks' business and are noted), 'S:what' is
        implementation-shape drift, 'H:what' is a harness-level inconsistency (undecided)."""
        harness = []
        for v, f in zip(verdicts, files):
            for b in v.get("bad", []):
                why = b["why"]
                if why.startswith("P:"):
                    _, pid, what = why.split(":", 2)
                    if pid == self.pid:
                        if len(self.violations) >= 25:       # enough replay files; keep counting
                            self.violations.append(dict(what=what, replay=None))
                            continue
                        rep = describe(b["l"], f, why) if describe else dict(file=os.path.basename(f), line=b["l"], event=nth_line(f, b["l"]))
                        self.violation(what, rep)
                    else:
                        note = "also observed (decided by %s's own check): %s" % (pid, what)
                        if note not in self.notes and len(self.notes) < 20:
                            self.notes.append(note)
                elif why.startswith("S:"):
                    self.drift("%s (e.g. line %d of %s)" % (why[2:], b["l"], os.path.basename(f)))
                else:
                    harness.append("harness-level inconsistency %s at line %d of %s" % (why, b["l"], f))
        if harness and not self.violations:
            raise Undecided(harness[0])
        if harness:
            self.notes.append(harness[0])

    def finish(self, explanation=""):
        wall = time.time() - self.t0
        cov = dict(states=max(self.states, 0), transitions=max(self.transitions, 0), traces_validated_against_impl=self.traces,
                   samples=self.samples or ["(no sample recorded)"], evaluations=max(self.evaluations, self.events, 1),
                   distinct_nontrivial=self.nontrivial, rule=self.rule, events_validated=self.events,
                   checker_cmd="; ".join(self.checker_cmds[:12]), trusted_base=self.trusted, exhaustive=self.exhaustive,
                   spec_drift=self.drifts, known_findings_hit=self.known_hits, explanation=explanation, notes=self.notes)
        cov["samples_readable"] = [pretty(x) for x in self.samples]
        cov.update(self.cover)
        ev = dict(property_id=self.pid, tier=self.tier, seed=self.seed, level=self.level, coverage=cov,
                  assumptions=self.assumptions, wall_s=round(wall, 2), violations=len(self.violations))
        os.makedirs(EVDIR, exist_ok=True)
        json.dump(ev, open(os.path.join(EVDIR, self.pid + ".json"), "w"), indent=1)
        print("%s %s seed=%d: states=%d transitions=%d traces=%d events=%d violations=%d drifts=%d wall=%.1fs" % (
            self.pid, self.tier, self.seed, self.states, self.transitions, self.traces, self.events, len(self.violations),
            getattr(self, "ndrifts", len(self.drifts)), wall))
        return 1 if self.violations else 0


TEXT_KEYS = {"v", "str", "alpha", "allowChars", "excludeChars", "sepChar", "out", "chars"}
TEXTLIST_KEYS = {"words", "kept", "titles", "keptTitles", "requireSets", "secrets", "atoms", "seps", "emb", "file", "lower"}


def _txt(cps):
    try:
        return "".join(chr(c) if c < 0x110000 else "\\x%02x" % (c - 0x110000) for c in cps)
    except Exception:
        return None


def pretty(o, depth=0):
    """A readable rendering of a recorded event: code-point arrays shown as text."""
    if depth > 6:
        return "..."
    if isinstance(o, dict):
        out = {}
        for k, v in o.items():
            if k in TEXT_KEYS and isinstance(v, list) and all(isinstance(x, int) for x in v):
                out[k] = _txt(v)[:200]
            elif k in TEXTLIST_KEYS and isinstance(v, list) and all(isinstance(x, list) for x in v):
                out[k] = [_txt(x) for x in v[:12]] + (["...(%d more)" % (len(v) - 12)] if len(v) > 12 else [])
            elif k in ("ent", "ent2", "sp") and isinstance(v, dict) and v.get("k") == "fin":
                out[k] = (-1 if v.get("neg") else 1) * v.get("m", 0) * 2.0 ** v.get("e", 0)
            else:
                out[k] = pretty(v, depth + 1)
        return out
    if isinstance(o, list):
        return [pretty(x, depth + 1) for x in o[:12]] + (["...(%d more)" % (len(o) - 12)] if len(o) > 12 else [])
    return o


def load_known():
    p = os.path.join(VERIF, "known_findings.json")
    try:
        return json.load(open(p))
    except Exception:
        return {"open": [], "fixed": []}


def finding_key(pid, what, replay):
    if isinstance(replay, dict) and "key" in replay:
        return replay["key"]
    return what


def run_check(pid, tier, fn, level="model_checking"):
    ctx = Ctx(pid, tier, level)
    try:
        expl = fn(ctx) or ""
        if ctx.partial and not ctx.violations:
            raise Undecided(ctx.partial)
        if ctx.traces == 0 or ctx.events == 0:
            raise Undecided("no execution of the real code was validated against the specification")
        rc = ctx.finish(expl)
    except Undecided as u:
        print("UNDECIDED property=%s: %s" % (pid, u))
        rc = 2
    except subprocess.TimeoutExpired as t:
        print("UNDECIDED property=%s: timeout %s" % (pid, t))
        rc = 2
    sys.stdout.flush()
    return rc


def read_ndjson(path, limit=None):
    out = []
    with open(path) as f:
        for i, l in enumerate(f):
            if limit is not None and i >= limit:
                break
            out.append(json.loads(l))
    return out


def nth_line(path, n):
    with open(path) as f:
        for i, l in enumerate(f, 1):
            if i == n:
                return json.loads(l)
    return None


def parallel(fn, items, workers=None):
    with concurrent.futures.ThreadPoolExecutor(max_workers=workers or NCPU) as ex:
        return list(ex.map(fn, items))
