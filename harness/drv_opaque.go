package main

// C01 (iii): every random choice of every generator must go through the
// bounded draw. A read of the source that no draw announced is a choice made
// from a raw 32-bit word directly. Such a read is probed: everything else
// held fixed, the word at that position is varied over many values and the
// distinct outcomes are counted.

import (
	"encoding/json"
	"flag"
	"fmt"
	mrand "math/rand"

	"go.1password.io/spg"
)

func init() {
	commands["opaque"] = cmdOpaque
}

func cmdOpaque(args []string) {
	fs := flag.NewFlagSet("opaque", flag.ExitOnError)
	seed := fs.Int64("seed", 1, "")
	scen := fs.String("scen", "", "")
	out := fs.String("out", "opaque.ndjson", "")
	nrand := fs.Int("nrand", 65536, "")
	fs.Parse(args)
	scs := readScenarios(*scen)
	em := NewEmitter(*out)
	probedCells := 0 // probing is expensive; a few probed generators decide the rule
	for i, sc := range scs {
		restore := setEnv(sc.MaxTrials, sc.FailRateOne)
		body, err := genBody(sc)
		if err != nil {
			restore()
			continue
		}
		run := func(opaque []uint32, policySeed int64) (GenRes, RunOut) {
			e := NewEnum(*seed + int64(i))
			e.RejectProb = 0
			pr := mrand.New(mrand.NewSource(policySeed))
			e.Policy = func(j int, n uint32) uint32 { return uint32(pr.Int63n(int64(n))) }
			e.OpaqueWords = opaque
			e.OpaqueSeeded = mrand.New(mrand.NewSource(policySeed + 17))
			var res GenRes
			o := e.Run(nil, func() { res = body() })
			if o.Panic != nil {
				res = ResOf(nil, nil, o.Panic)
			}
			return res, o
		}
		for rep := int64(0); rep < 3; rep++ {
			base, o := run(nil, rep)
			ev := map[string]interface{}{"op": "opaque", "id": i, "kind": sc.Kind, "tag": sc.Tag, "unann": o.Unannounced, "draws": len(o.Draws),
				"probed": 0, "outcomes": 0, "rereads": 0, "baseKind": base.Kind, "cap": "", "len": 0, "coins": 0, "prefetch": b2i(o.Prefetch)}
			if sc.Kind == "wl" && sc.WL != nil {
				// what the specification needs for the information rule: the binary choices that WERE announced
				coins := 0
				for _, d := range o.Draws {
					if d.N == 2 {
						coins++
					}
				}
				ev["cap"], ev["len"], ev["coins"] = sc.WL.Cap, sc.WL.Len, coins
			}
			if o.Unannounced > 0 && probedCells < 4 {
				probedCells++
				// vary the first unannounced word, everything else fixed
				outcomes := map[string]int{}
				probes := []uint32{}
				for w := uint32(0); w < 4096; w++ {
					probes = append(probes, w, 0xFFFFFFFF-w)
				}
				pr := mrand.New(mrand.NewSource(*seed*77 + rep))
				for k := 0; k < *nrand; k++ {
					probes = append(probes, pr.Uint32())
				}
				rereads := 0
				for _, w := range probes {
					res, oo := run([]uint32{w}, rep)
					if oo.Unannounced != o.Unannounced || len(oo.Draws) != len(o.Draws) {
						rereads = 1
					}
					if oo.Prefetch {
						ev["prefetch"] = 1
					}
					b, _ := json.Marshal([]interface{}{res.Kind, res.Toks})
					outcomes[string(b)]++
				}
				minc := len(probes)
				for _, c := range outcomes {
					if c < minc {
						minc = c
					}
				}
				ev["probed"], ev["outcomes"], ev["rereads"], ev["minCount"] = len(probes), len(outcomes), rereads, minc
			}
			em.Emit(ev)
		}
		restore()
	}
	em.Close()
	fmt.Printf("{\"events\":%d}\n", em.N)
}

var _ = spg.MaxTrials
