package main

import (
	"fmt"
	"os"
)

var commands = map[string]func(args []string){}

func main() {
	if len(os.Args) < 2 {
		fmt.Fprintln(os.Stderr, "usage: spgdrv <command> [flags]")
		os.Exit(3)
	}
	cmd, ok := commands[os.Args[1]]
	if !ok {
		fmt.Fprintln(os.Stderr, "unknown command", os.Args[1])
		os.Exit(3)
	}
	cmd(os.Args[2:])
}
