package main

// envprobe: what the library's SOURCE consults besides its arguments and the random source - names of environment
// variables it looks up, files it opens, and whether it reads the clock. The checks re-run their scenarios with every
// such variable set, so that behaviour switched on by the environment is exercised (and report the rest as drift).

import (
	"encoding/json"
	"flag"
	"go/ast"
	"go/parser"
	"go/token"
	"os"
	"path/filepath"
	"sort"
	"strconv"
	"strings"
)

func init() {
	commands["envprobe"] = cmdEnvProbe
}

func cmdEnvProbe(args []string) {
	fs := flag.NewFlagSet("envprobe", flag.ExitOnError)
	repo := fs.String("repo", "/repo", "")
	fs.Parse(args)
	envNames := map[string]bool{}
	calls := map[string]bool{}
	dynamic := false
	var files []string
	for _, dir := range []string{*repo, filepath.Join(*repo, "cmd", "opgen")} {
		ms, _ := filepath.Glob(filepath.Join(dir, "*.go"))
		for _, m := range ms {
			if strings.HasSuffix(m, "_test.go") || strings.HasSuffix(m, "verif_hooks.go") || strings.HasSuffix(m, "verif_nohooks.go") {
				continue
			}
			files = append(files, m)
		}
	}
	fset := token.NewFileSet()
	for _, fn := range files {
		f, err := parser.ParseFile(fset, fn, nil, 0)
		if err != nil {
			continue
		}
		// local names of the packages of interest
		pk := map[string]string{}
		for _, im := range f.Imports {
			p, _ := strconv.Unquote(im.Path.Value)
			name := filepath.Base(p)
			if im.Name != nil {
				name = im.Name.Name
			}
			pk[name] = p
		}
		ast.Inspect(f, func(n ast.Node) bool {
			ce, ok := n.(*ast.CallExpr)
			if !ok {
				return true
			}
			se, ok := ce.Fun.(*ast.SelectorExpr)
			if !ok {
				return true
			}
			id, ok := se.X.(*ast.Ident)
			if !ok {
				return true
			}
			full := pk[id.Name] + "." + se.Sel.Name
			switch full {
			case "os.Getenv", "os.LookupEnv", "syscall.Getenv":
				if len(ce.Args) == 1 {
					if bl, ok := ce.Args[0].(*ast.BasicLit); ok && bl.Kind == token.STRING {
						s, _ := strconv.Unquote(bl.Value)
						envNames[s] = true
					} else {
						dynamic = true
					}
				}
				calls[full] = true
			case "os.Environ", "os.ExpandEnv", "os.Expand", "time.Now", "time.Since", "os.Hostname", "os.Getpid", "os.Getuid", "os.Getwd", "os.UserHomeDir",
				"os.Open", "os.OpenFile", "os.Create", "os.ReadFile", "os.WriteFile", "os.Executable":
				if strings.HasSuffix(filepath.Dir(fn), filepath.Join("cmd", "opgen")) && strings.HasPrefix(full, "os.") && !strings.Contains(full, "Env") {
					return true // the command line tool reads the word-list file it is given
				}
				calls[full] = true
			}
			return true
		})
	}
	// string constants that look like environment variable names and are passed around (os.Getenv(name) with a constant name)
	names := []string{}
	for k := range envNames {
		names = append(names, k)
	}
	sort.Strings(names)
	cs := []string{}
	for k := range calls {
		cs = append(cs, k)
	}
	sort.Strings(cs)
	json.NewEncoder(os.Stdout).Encode(map[string]interface{}{"env": names, "calls": cs, "dynamic": dynamic, "files": len(files)})
}
