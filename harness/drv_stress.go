package main

// C14 driver (built with -race): goroutines call Generate, Entropy, Alphabet,
// SuccessProbability and Size concurrently on the SAME recipe values, the same
// word list and the same separator functions, with real OS randomness.

import (
	"flag"
	"fmt"
	"os"
	"reflect"
	"runtime"
	"strings"
	"sync"
	"sync/atomic"
	"time"

	"go.1password.io/spg"
)

func init() {
	commands["stress"] = cmdStress
}

type stressRes struct {
	res GenRes
}

func cmdStress(args []string) {
	fs := flag.NewFlagSet("stress", flag.ExitOnError)
	outc := fs.String("outc", "stress-char.ndjson", "")
	outw := fs.String("outw", "stress-wl.ndjson", "")
	G := fs.Int("g", 8, "goroutines")
	ms := fs.Int("ms", 1500, "milliseconds per configuration")
	keep := fs.Int("keep", 120, "results kept per goroutine")
	src := fs.String("src", "os", "os: the real crypto/rand.Reader; go: a goroutine-safe reader written in Go, so that the race detector sees every write into the library's buffers")
	fs.Parse(args)
	go stressWatchdog(time.Duration(*ms) * time.Millisecond)
	if *src == "go" {
		old := randReaderSwap(&syncReader{})
		defer randReaderSwap(old)
	}
	emc, emw := NewEmitter(*outc), NewEmitter(*outw)
	o := func(s string) []int { return CPs(s) }
	// ---- shared character recipes ----
	chars := []CharSpec{
		{Len: 12, Allow: int(spg.All), Require: int(spg.Digits | spg.Symbols), Exclude: int(spg.Ambiguous)},
		{Len: 5, AllowChars: o("abcé"), RequireSets: [][]int{o("xy"), o("yz")}, ExcludeChars: o("c")},
		{Len: 20, Allow: int(spg.Letters | spg.Digits), Require: int(spg.Uppers | spg.Lowers | spg.Digits)},
		// seven required sets (128 inclusion-exclusion terms per count, computed by every caller at once)
		{Len: 10, Allow: int(spg.Lowers), RequireSets: [][]int{o("ab"), o("cd"), o("ef"), o("gh"), o("ij"), o("kl"), o("mn")}},
		// most attempts fail (one candidate in four meets the requirement; all 200 failing has probability 1e-25): the callers spend their time inside the retry loop
		{Len: 1, AllowChars: o("abc"), RequireSets: [][]int{o("z")}},
	}
	// references first, single-threaded (they touch the MaxTrials/MaxFailRate globals and the draw hook)
	sharedR := make([]spg.CharRecipe, len(chars))
	refCells := make([]*CellEv, len(chars))
	beforeS := make([]CharSpec, len(chars))
	for ci := range chars {
		chars[ci].norm()
		sharedR[ci] = spareCap(chars[ci].Recipe())
		beforeS[ci] = CharSpecOf(sharedR[ci])
		sc := Scenario{Kind: "char", Char: &chars[ci], Mode: "paths", Paths: 0, Tag: "stress"}
		refCells[ci] = charCellEvents(ci, sc, 1, &sharedR[ci])[0].(*CellEv)
	}
	var outer sync.WaitGroup
	var emitMu sync.Mutex
	for ci := range chars {
		ci := ci
		outer.Add(1)
		go func() {
			defer outer.Done()
			shared := sharedR[ci] // one value, used by every goroutine; the recipes are exercised at the same time
			before := beforeS[ci]
			cell := refCells[ci]
			results := make([][]GenRes, *G)
			var wg sync.WaitGroup
			stop := time.Now().Add(time.Duration(*ms) * time.Millisecond)
			for g := 0; g < *G; g++ {
				wg.Add(1)
				go func(g int) {
					defer wg.Done()
					for i := 0; time.Now().Before(stop); i++ {
						switch i % 4 {
						case 0, 1:
							p, err := shared.Generate()
							if len(results[g]) < *keep {
								results[g] = append(results[g], ResOf(p, err, nil))
							}
						case 2:
							e := shared.Entropy()
							if len(results[g]) < *keep {
								results[g] = append(results[g], GenRes{Kind: "entropy", Ent: DyadicOf(e), Toks: []TokJ{}, Str: []int{}})
							}
						case 3:
							a := shared.Alphabet()
							_ = shared.SuccessProbability()
							if len(results[g]) < *keep {
								results[g] = append(results[g], GenRes{Kind: "alphabet", Str: CPs(a), Toks: []TokJ{}, Ent: DyadicOf(0)})
							}
						}
					}
				}(g)
			}
			wg.Wait()
			if !reflect.DeepEqual(before, CharSpecOf(shared)) {
				cell.Mutated = 1
			}
			if hiddenNonNil(shared) {
				cell.Hidden = 1
			}
			emitMu.Lock()
			emc.Emit(cell)
			for g := range results {
				for _, r := range results[g] {
					emc.Emit(LeafEv{Op: "leaf", D: [][2]int{}, Det: -1, Res: r, PathW: []int{}, Conc: 1, Reads: 1, PathProd: []int{}})
				}
			}
			emc.Emit(map[string]interface{}{"op": "cellend", "id": ci})
			emitMu.Unlock()
		}()
	}
	outer.Wait()
	// ---- first use under concurrency: recipe shapes this process has never seen, hit by all goroutines at once ----
	for k := 0; k < 24; k++ {
		alpha := []rune("abcdefghijklmnopqrstuvwxyz0123456789")
		// a shape of its own: a rotated alphabet with a marker character, so that no earlier call can have prepared anything for it
		rot := append(append([]rune{}, alpha[k:]...), alpha[:k]...)
		spec := CharSpec{Len: 6, AllowChars: CPs(string(rot[:20]) + string(rune(0x3B1+k))), RequireSets: [][]int{CPs(string(rot[3:6]))}}
		if k == 0 {
			// the first recipe of this process that REQUIRES the ambiguous class (no earlier call can have prepared anything for it)
			spec = CharSpec{Len: 8, Allow: int(spg.All), Require: int(spg.Ambiguous | spg.Digits)}
		}
		spec.norm()
		shared := spareCap(spec.Recipe())
		results := make([][]GenRes, *G)
		start := make(chan struct{})
		var wg sync.WaitGroup
		for g := 0; g < *G; g++ {
			wg.Add(1)
			go func(g int) {
				defer wg.Done()
				<-start
				for i := 0; i < 6; i++ {
					switch (i + g) % 3 {
					case 0:
						a := shared.Alphabet()
						results[g] = append(results[g], GenRes{Kind: "alphabet", Str: CPs(a), Toks: []TokJ{}, Ent: DyadicOf(0)})
					case 1:
						p, err := shared.Generate()
						results[g] = append(results[g], ResOf(p, err, nil))
					case 2:
						e := shared.Entropy()
						results[g] = append(results[g], GenRes{Kind: "entropy", Ent: DyadicOf(e), Toks: []TokJ{}, Str: []int{}})
					}
				}
			}(g)
		}
		close(start)
		wg.Wait()
		// the reference afterwards, single-threaded
		sc := Scenario{Kind: "char", Char: &spec, Mode: "paths", Paths: 0, Tag: "stress-first-use"}
		cell := charCellEvents(100+k, sc, 1, &shared)[0].(*CellEv)
		emc.Emit(cell)
		for g := range results {
			for _, r := range results[g] {
				emc.Emit(LeafEv{Op: "leaf", D: [][2]int{}, Det: -1, Res: r, PathW: []int{}, Conc: 1, Reads: 1, PathProd: []int{}})
			}
		}
		emc.Emit(map[string]interface{}{"op": "cellend", "id": 100 + k})
	}
	// ---- first use of a FRESH word list under concurrency: anything the list builds lazily is built by all goroutines at once ----
	for k := 0; k < 8; k++ {
		fw := []string{}
		for j := 0; j < 6; j++ {
			fw = append(fw, fmt.Sprintf("w%dx%c%c", k, rune('a'+j), rune('n'+j)))
		}
		fwl, err := spg.NewWordList(fw)
		if err != nil {
			fatal("%v", err)
		}
		spec := WLSpec{Words: CPsList(fw), Len: 4, Cap: []string{"all", "random", "first", "one"}[k%4], Sep: "char", SepChar: o("-")}
		spec.norm()
		fr := spg.NewWLRecipe(spec.Len, fwl)
		rr, _, err := spec.Build(fwl)
		if err != nil {
			fatal("%v", err)
		}
		fr.Capitalize, fr.SeparatorChar, fr.SeparatorFunc = rr.Capitalize, rr.SeparatorChar, rr.SeparatorFunc
		results := make([][]GenRes, *G)
		start := make(chan struct{})
		var fwg sync.WaitGroup
		for g := 0; g < *G; g++ {
			fwg.Add(1)
			go func(g int) {
				defer fwg.Done()
				<-start
				for i := 0; i < 4; i++ {
					p, err := fr.Generate()
					results[g] = append(results[g], ResOf(p, err, nil))
				}
			}(g)
		}
		close(start)
		fwg.Wait()
		sc := Scenario{Kind: "wl", WL: &spec, Mode: "paths", Paths: 0, Tag: "stress-first-use-wl"}
		evs := wlCellEvents(200+k, sc, 1, fr, fwl)
		emw.Emit(evs[0])
		for g := range results {
			for _, r := range results[g] {
				emw.Emit(LeafEv{Op: "wleaf", D: [][2]int{}, Det: -1, Res: r, PathW: []int{}, Conc: 1, Reads: 1, PathProd: []int{}})
			}
		}
		emw.Emit(map[string]interface{}{"op": "wcellend", "id": 200 + k})
	}
	// ---- many DIFFERENT recipes in use at the same time (a bounded process-wide table keyed by the recipe must behave like no table) ----
	{
		const nchurn = 40
		cspecs := make([]CharSpec, nchurn)
		crs := make([]spg.CharRecipe, nchurn)
		ccells := make([]*CellEv, nchurn)
		for k := 0; k < nchurn; k++ {
			cspecs[k] = CharSpec{Len: 6 + k%5, Allow: int(spg.Letters | spg.Digits), Require: int(spg.Digits), ExcludeChars: o(string(rune('a'+k%26)) + string(rune('A'+k/2)))}
			cspecs[k].norm()
			crs[k] = cspecs[k].Recipe()
			sc := Scenario{Kind: "char", Char: &cspecs[k], Mode: "paths", Paths: 0, Tag: "stress-churn"}
			ccells[k] = charCellEvents(400+k, sc, 1, &crs[k])[0].(*CellEv)
		}
		cres := make([][][]GenRes, *G)
		var cwg sync.WaitGroup
		cstop := time.Now().Add(time.Duration(*ms) * time.Millisecond)
		for g := 0; g < *G; g++ {
			cres[g] = make([][]GenRes, nchurn)
			cwg.Add(1)
			go func(g int) {
				defer cwg.Done()
				for i := 0; time.Now().Before(cstop); i++ {
					k := (i*7 + g*3) % nchurn
					p, err := crs[k].Generate()
					if len(cres[g][k]) < 4 {
						cres[g][k] = append(cres[g][k], ResOf(p, err, nil))
					}
				}
			}(g)
		}
		cwg.Wait()
		for k := 0; k < nchurn; k++ {
			emc.Emit(ccells[k])
			for g := 0; g < *G; g++ {
				for _, r := range cres[g][k] {
					emc.Emit(LeafEv{Op: "leaf", D: [][2]int{}, Det: -1, Res: r, PathW: []int{}, Conc: 1, Reads: 1, PathProd: []int{}})
				}
			}
			emc.Emit(map[string]interface{}{"op": "cellend", "id": 400 + k})
		}
	}
	// ---- many calls INSIDE their separator function at the same moment: a caller-written function that waits until K callers are in it ----
	{
		K := 24
		if *G > K {
			K = *G
		}
		pw := []string{"one", "two", "three", "kettő", "zebra"}
		pspec := WLSpec{Words: CPsList(pw), Len: 3, Cap: "none", Sep: "customlist", SepVals: [][]int{o("-")}}
		pspec.norm()
		plain, pwl, err := pspec.Build(nil)
		if err != nil {
			fatal("%v", err)
		}
		sc := Scenario{Kind: "wl", WL: &pspec, Mode: "paths", Paths: 0, Tag: "stress-parked-separators"}
		pcell := wlCellEvents(300, sc, 1, &plain, pwl)[0]
		orig := plain.SeparatorFunc
		var arrived int32
		release := make(chan struct{})
		var once sync.Once
		parked := plain
		parked.SeparatorFunc = func() (string, spg.FloatE) {
			if n := atomic.AddInt32(&arrived, 1); n <= int32(K) {
				if n == int32(K) {
					once.Do(func() { close(release) })
				}
				select {
				case <-release:
				case <-time.After(3 * time.Second):
				}
			}
			return orig()
		}
		pres := make([][]GenRes, K)
		var pwg sync.WaitGroup
		for g := 0; g < K; g++ {
			pwg.Add(1)
			go func(g int) {
				defer pwg.Done()
				for i := 0; i < 2; i++ {
					p, err := parked.Generate()
					pres[g] = append(pres[g], ResOf(p, err, nil))
				}
			}(g)
		}
		pwg.Wait()
		emw.Emit(pcell)
		for g := range pres {
			for _, r := range pres[g] {
				emw.Emit(LeafEv{Op: "wleaf", D: [][2]int{}, Det: -1, Res: r, PathW: []int{}, Conc: 1, Reads: 1, PathProd: []int{}})
			}
		}
		emw.Emit(map[string]interface{}{"op": "wcellend", "id": 300})
	}
	// ---- shared word list, wordlist recipes and separator functions ----
	words := []string{"one", "two", "three", "kettő", "ice-cream", "zebra", "größe"}
	sepReq := CharSpec{Len: 2, Allow: int(spg.Digits | spg.Symbols), Require: int(spg.Digits)}
	sepReq.norm()
	// a separator recipe that is refused for its failure rate (digit AND symbol in two characters): every separator is ""
	sepLow := CharSpec{Len: 2, Allow: int(spg.All), Require: int(spg.Digits | spg.Symbols)}
	sepLow.norm()
	wls := []WLSpec{
		{Words: CPsList(words), Len: 3, Cap: "none", Sep: "recipe", SepRecipe: &sepLow},
		{Words: CPsList(words), Len: 4, Cap: "one", Sep: "SFDigits1"},
		{Words: CPsList(words), Len: 3, Cap: "random", Sep: "recipe", SepRecipe: &sepReq},
		{Words: CPsList(words), Len: 5, Cap: "all", Sep: "SFDigits1"}, // a second recipe sharing the list and the preset
		{Words: CPsList(words), Len: 2, Cap: "first", Sep: "char", SepChar: o("-")},
	}
	wl, err := spg.NewWordList(words)
	if err != nil {
		fatal("%v", err)
	}
	type shW struct {
		r    *spg.WLRecipe
		cell *WCellEv
		res  [][]GenRes
	}
	var sh []*shW
	for wi := range wls {
		wls[wi].norm()
		r := spg.NewWLRecipe(wls[wi].Len, wl)
		rr, _, err := wls[wi].Build(wl)
		if err != nil {
			fatal("%v", err)
		}
		r.Capitalize, r.SeparatorChar, r.SeparatorFunc = rr.Capitalize, rr.SeparatorChar, rr.SeparatorFunc
		sc := Scenario{Kind: "wl", WL: &wls[wi], Mode: "paths", Paths: 0, Tag: "stress"}
		evs := wlCellEvents(wi, sc, 1, r, wl)
		sh = append(sh, &shW{r: r, cell: evs[0].(*WCellEv), res: make([][]GenRes, *G)})
	}
	var wg sync.WaitGroup
	stop := time.Now().Add(time.Duration(2**ms) * time.Millisecond)
	for g := 0; g < *G; g++ {
		wg.Add(1)
		go func(g int) {
			defer wg.Done()
			for i := 0; time.Now().Before(stop); i++ {
				s := sh[(i+g)%len(sh)]
				switch i % 5 {
				case 0, 1, 2:
					p, err := s.r.Generate() // calls on the same *WLRecipe value (value receiver: copied per call)
					if len(s.res[g]) < *keep {
						s.res[g] = append(s.res[g], ResOf(p, err, nil))
					}
				case 3:
					e := s.r.Entropy()
					if len(s.res[g]) < *keep {
						s.res[g] = append(s.res[g], GenRes{Kind: "entropy", Ent: DyadicOf(e), Toks: []TokJ{}, Str: []int{}})
					}
				case 4:
					n := s.r.Size() + wl.Size()
					sep, _ := spg.SFDigits1() // the shared preset, called directly as well
					if len(s.res[g]) < *keep {
						s.res[g] = append(s.res[g], GenRes{Kind: "size", Str: []int{int(n)}, Msg: Sanitize(strings.Repeat("d", len(sep))), Toks: []TokJ{}, Ent: DyadicOf(0)})
					}
				}
			}
		}(g)
	}
	wg.Wait()
	kept, uncap := spg.VerifWordListState(wl)
	for wi, s := range sh {
		if !reflect.DeepEqual(CPsList(kept), s.cell.Kept) || uncap != s.cell.Uncap {
			s.cell.Mutated = 1
		}
		emw.Emit(s.cell)
		for g := range s.res {
			for _, r := range s.res[g] {
				emw.Emit(LeafEv{Op: "wleaf", D: [][2]int{}, Det: -1, Res: r, PathW: []int{}, Conc: 1, Reads: 1, PathProd: []int{}})
			}
		}
		emw.Emit(map[string]interface{}{"op": "wcellend", "id": wi})
	}
	emc.Close()
	emw.Close()
	fmt.Printf("{\"cevents\":%d,\"wevents\":%d}\n", emc.N, emw.N)
}

// stressWatchdog ends a run that does not finish.  Every loop of the driver is bounded by the clock, so a run that is still going
// long after its time is either starved by the machine or stuck.  It is called a hang only when goroutines have been WAITING
// (not running, not runnable) for at least a minute inside library code; otherwise the run is merely slow (undecided).
func stressWatchdog(per time.Duration) {
	limit := 20*per + 150*time.Second
	time.Sleep(limit)
	buf := make([]byte, 8<<20)
	buf = buf[:runtime.Stack(buf, true)]
	stuck := 0
	for _, g := range strings.Split(string(buf), "\n\n") {
		head := g
		if i := strings.Index(g, "\n"); i >= 0 {
			head = g[:i]
		}
		waiting := strings.Contains(head, "minutes]") && !strings.Contains(head, "[running") && !strings.Contains(head, "[runnable") && !strings.Contains(head, "[syscall")
		if waiting && strings.Contains(g, "go.1password.io/spg.") {
			stuck++
		}
	}
	fmt.Fprintf(os.Stderr, "\nSTRESS-WATCHDOG: run not finished after %v; %d goroutines waiting for minutes inside library code\n", limit, stuck)
	if stuck > 0 {
		fmt.Fprintf(os.Stderr, "STRESS-HANG\n%s\n", firstN(string(buf), 6000))
		os.Exit(7)
	}
	os.Exit(8)
}

func firstN(s string, n int) string {
	if len(s) > n {
		return s[:n]
	}
	return s
}

// spareCap gives the caller-owned RequireSets slice spare capacity (as a slice built with append usually has): every copy
// of the recipe value shares that backing array, so a library call that appends to the field writes into shared memory.
func spareCap(r spg.CharRecipe) spg.CharRecipe {
	rs := make([]string, len(r.RequireSets), len(r.RequireSets)+8)
	copy(rs, r.RequireSets)
	r.RequireSets = rs
	return r
}

// syncReader is a goroutine-safe random source implemented in (race-instrumented) Go code: its own state is
// protected by a mutex, the bytes are written into the caller's buffer outside the lock - exactly like a
// kernel source would, but visible to the race detector.
type syncReader struct {
	mu sync.Mutex
	x  uint64
}

func (r *syncReader) Read(p []byte) (int, error) {
	r.mu.Lock()
	r.x = r.x*6364136223846793005 + 1442695040888963407
	v := r.x
	r.mu.Unlock()
	for i := range p {
		v ^= v >> 29
		v *= 0xBF58476D1CE4E5B9
		p[i] = byte(v >> 32)
	}
	return len(p), nil
}
