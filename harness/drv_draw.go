package main

// C01 drivers: directed draws through the real bounded draw under a scripted
// tape, and full-width sweeps (every one of the 2^32 raw words presented as
// the first word of a draw).

import (
	"encoding/binary"
	"encoding/json"
	"flag"
	"fmt"
	"math/big"
	mrand "math/rand"
	"os"
	"sort"
	"strconv"
	"strings"

	"go.1password.io/spg"
)

func init() {
	commands["draw"] = cmdDraw
	commands["sweep"] = cmdSweep
	commands["sweepmerge"] = cmdSweepMerge
	commands["sweepcount"] = cmdSweepCount
}

type DrawEv struct {
	Op    string  `json:"op"`
	N     []int   `json:"n"`
	NI    int     `json:"ni"`    // n if < 2^31 else -1 (convenience for samples)
	Words [][]int `json:"words"` // the tape offered, in order
	Used  int     `json:"used"`
	Kind  string  `json:"kind"` // ok | panic | starved
	Res   []int   `json:"res"`
	// witnesses (computed by the harness with math/big, *checked* by TLC):
	QT   []int `json:"qT"` // (2^32-1) = qT*n + rT, rT < n
	RT   []int `json:"rT"`
	Q    []int `json:"q"` // last word = q*n + res
	Pow2 int   `json:"pow2"`
}

func drawOnce(n uint32, words []uint32) (res uint32, used int, kind string) {
	return drawOnceChunked(n, words, nil)
}

// drawOnceChunked serves the same words in short deliveries (chunk sizes cycle).
func drawOnceChunked(n uint32, words []uint32, chunk []int) (res uint32, used int, kind string) {
	t := &Tape{Chunk: chunk}
	for _, w := range words {
		t.Push(w)
	}
	old := randReaderSwap(t)
	defer randReaderSwap(old)
	kind = "ok"
	func() {
		defer func() {
			if r := recover(); r != nil {
				kind = "panic"
				if t.Exhausted {
					kind = "starved"
				}
			}
		}()
		res = spg.VerifRandomUint32n(n)
	}()
	return res, t.Bytes / 4, kind
}

func mkDrawEv(n uint32, words []uint32, res uint32, used int, kind string) DrawEv {
	M1 := new(big.Int).SetUint64(1<<32 - 1)
	bn := new(big.Int).SetUint64(uint64(n))
	qT, rT := new(big.Int).QuoRem(M1, bn, new(big.Int))
	ev := DrawEv{Op: "draw", N: LimbsU64(uint64(n)), NI: -1, Used: used, Kind: kind, Res: LimbsU64(uint64(res)),
		QT: Limbs(qT), RT: Limbs(rT), Q: []int{}, Words: [][]int{}}
	if n < 1<<31 {
		ev.NI = int(n)
	}
	if n&(n-1) == 0 {
		ev.Pow2 = 1
	}
	for i := 0; i < len(words); i++ { // the whole tape offered; the first Used words were consumed
		ev.Words = append(ev.Words, LimbsU64(uint64(words[i])))
	}
	if kind == "ok" && used >= 1 && used <= len(words) {
		last := new(big.Int).SetUint64(uint64(words[used-1]))
		q := new(big.Int)
		if res < n {
			// q = (last - res)/n when that is exact and non-negative, else 0 (TLC will reject)
			d := new(big.Int).Sub(last, new(big.Int).SetUint64(uint64(res)))
			if d.Sign() >= 0 {
				q.Quo(d, bn)
			}
		}
		ev.Q = Limbs(q)
	}
	return ev
}

func boundsFor(tier string, rng *mrand.Rand) []uint32 {
	set := map[uint32]bool{}
	top := 300
	nseed := 120
	if tier == "thorough" {
		top = 4096
		nseed = 1500
	}
	for n := 1; n <= top; n++ {
		set[uint32(n)] = true
	}
	for k := uint(0); k <= 32; k++ {
		p := uint64(1) << k
		for _, d := range []int64{-1, 0, 1} {
			v := int64(p) + d
			if v >= 1 && v <= (1<<32)-1 {
				set[uint32(v)] = true
			}
		}
	}
	for _, n := range []uint32{10, 26, 52, 61, 62, 68, 75, 10129, 18325, 3 << 30, 1<<32 - 2, 1<<31 + 12345, 0xAAAAAAAB, 0x55555555} {
		set[n] = true
	}
	for i := 0; i < nseed; i++ {
		bits := uint(1 + rng.Intn(32))
		v := uint32(rng.Uint64() >> (64 - bits))
		if v >= 1 {
			set[v] = true
		}
	}
	out := make([]uint32, 0, len(set))
	for n := range set {
		out = append(out, n)
	}
	sort.Slice(out, func(i, j int) bool { return out[i] < out[j] })
	return out
}

func cmdDraw(args []string) {
	fs := flag.NewFlagSet("draw", flag.ExitOnError)
	seed := fs.Int64("seed", 1, "")
	tier := fs.String("tier", "quick", "")
	out := fs.String("out", "draw.ndjson", "")
	shards := fs.Int("shards", 1, "write out.<k> files")
	only := fs.String("bounds", "", "comma-separated bounds to probe instead of the tier's set")
	fs.Parse(args)
	rng := mrand.New(mrand.NewSource(*seed))
	ems := make([]*Emitter, *shards)
	for i := range ems {
		ems[i] = NewEmitter(fmt.Sprintf("%s.%d", *out, i))
	}
	bounds := boundsFor(*tier, rng)
	if *only != "" {
		bounds = nil
		for _, f := range strings.Split(*only, ",") {
			v, err := strconv.ParseUint(strings.TrimSpace(f), 10, 32)
			if err == nil && v >= 1 {
				bounds = append(bounds, uint32(v))
			}
		}
	}
	nb := 0
	for _, n := range bounds {
		em := ems[nb%*shards]
		nb++
		T := uint64(1<<32-1) - uint64(1<<32-1)%uint64(n) // only used to *choose* interesting words
		cands := []uint64{0, 1, uint64(n) - 1, uint64(n), uint64(n) + 1, T - 1, T, T + 1, 1<<32 - 1, 1<<32 - 2, 1 << 31, 1<<31 - 1}
		for i := 0; i < 3; i++ {
			k := uint64(rng.Int63n(int64((1<<32)/uint64(n)) + 1))
			cands = append(cands, k*uint64(n), k*uint64(n)+uint64(n)-1, k*uint64(n)+1)
		}
		for i := 0; i < 4; i++ {
			cands = append(cands, uint64(rng.Uint32()))
		}
		seen := map[uint32]bool{}
		firsts := []uint32{}
		for _, c := range cands {
			if c > 1<<32-1 {
				continue
			}
			w := uint32(c)
			if !seen[w] {
				seen[w] = true
				firsts = append(firsts, w)
			}
		}
		// followers: words that are (very likely) accepted, used after a rejected first word
		fol := func() []uint32 {
			return []uint32{uint32(rng.Int63n(int64(n))), rng.Uint32() >> 1 % maxU32(n, 1), 5, 0, 1, 2, 3, 4}
		}
		var rejected []uint32
		for _, w := range firsts {
			words := append([]uint32{w}, fol()...)
			res, used, kind := drawOnce(n, words)
			em.Emit(mkDrawEv(n, words, res, used, kind))
			if used > 1 && kind == "ok" {
				rejected = append(rejected, w)
				// the continuation must behave like a fresh draw: present the tail alone
				tail := words[1:]
				res2, used2, kind2 := drawOnce(n, tail)
				em.Emit(mkDrawEv(n, tail, res2, used2, kind2))
			}
			// determinism: same tape again, whole or delivered in short chunks
			switch rng.Intn(6) {
			case 0:
				res3, used3, kind3 := drawOnce(n, words)
				em.Emit(mkDrawEv(n, words, res3, used3, kind3))
			case 1:
				res3, used3, kind3 := drawOnceChunked(n, words, [][]int{{1}, {2, 1}, {3}, {1, 3}}[rng.Intn(4)])
				em.Emit(mkDrawEv(n, words, res3, used3, kind3))
			}
		}
		if len(rejected) >= 1 { // long chains of rejected words: 9 and 13 in a row, then an ordinary word
			// ... and much longer ones (a redraw loop that gives up, or changes behaviour, after some number of rejected
			// words): two rungs of the ladder per bound in rotation, the whole ladder for a few bounds
			ks := []int{9, 13, chainLadder[nb%len(chainLadder)], chainLadder[(nb*7+3)%len(chainLadder)]}
			if n == 3 || n == 62 || n == 18325 || n == 3<<30 || n == 1<<31+12345 {
				ks = append([]int{9, 13}, chainLadder...)
				if n == 3<<30 {
					ks = append(ks, 2049, 4097)
				}
			}
			for _, k := range ks {
				words := []uint32{}
				for j := 0; j < k; j++ {
					words = append(words, rejected[j%len(rejected)])
				}
				words = append(words, fol()...)
				res, used, kind := drawOnce(n, words)
				em.Emit(mkDrawEv(n, words, res, used, kind))
				tail := words[k:]
				res2, used2, kind2 := drawOnce(n, tail)
				em.Emit(mkDrawEv(n, tail, res2, used2, kind2))
			}
		}
		if uint64(n)*2 > 1<<32 {
			// above half the range every alternative can have at most ONE raw value (two each would need 2n > 2^32 values):
			// x and x+n presented at the same position (first, or after k rejected words) must not both be accepted
			depths := []int{0}
			if len(rejected) >= 1 {
				depths = append(depths, 1, 2, 8, 16, 17, 32, 33, 64, 65, 128, 129, 256, 257, 1000, 1024, 1025)
			}
			room := uint64(1<<32) - uint64(n) // x + n < 2^32  <=>  x < room
			xs := []uint64{0, 1, 2, room - 1, room / 2, uint64(rng.Int63n(int64(room)))}
			for _, k := range depths {
				prefix := []uint32{}
				for j := 0; j < k; j++ {
					prefix = append(prefix, rejected[j%len(rejected)])
				}
				for _, x := range xs {
					if x >= room {
						continue
					}
					w1 := append(append([]uint32{}, prefix...), uint32(x))
					w1 = append(w1, fol()...)
					w2 := append(append([]uint32{}, prefix...), uint32(x+uint64(n)))
					w2 = append(w2, w1[k+1:]...)
					r1, u1, k1 := drawOnce(n, w1)
					r2, u2, k2 := drawOnce(n, w2)
					em.Emit(map[string]interface{}{"op": "pair", "n": LimbsU64(uint64(n)), "k": k, "w1": LimbsU64(x), "w2": LimbsU64(x + uint64(n)),
						"used1": u1, "used2": u2, "kind1": k1, "kind2": k2, "res1": LimbsU64(uint64(r1)), "res2": LimbsU64(uint64(r2))})
					if k > 64 {
						break // one pair per deep position
					}
				}
			}
		}
		if len(rejected) >= 2 {
			words := append([]uint32{rejected[0], rejected[1], rejected[len(rejected)-1]}, fol()...)
			res, used, kind := drawOnce(n, words)
			em.Emit(mkDrawEv(n, words, res, used, kind))
			tail := words[3:]
			res2, used2, kind2 := drawOnce(n, tail)
			em.Emit(mkDrawEv(n, tail, res2, used2, kind2))
		}
	}
	// n = 0 must panic without consuming the tape
	func() {
		t := &Tape{}
		t.Push(7)
		old := randReaderSwap(t)
		defer randReaderSwap(old)
		kind := "ok"
		func() {
			defer func() {
				if r := recover(); r != nil {
					kind = "panic"
				}
			}()
			spg.VerifRandomUint32n(0)
		}()
		ems[0].Emit(map[string]interface{}{"op": "draw0", "kind": kind, "used": t.Bytes / 4})
	}()
	tot := 0
	for _, em := range ems {
		tot += em.N
		em.Close()
	}
	json.NewEncoder(os.Stdout).Encode(map[string]interface{}{"events": tot, "bounds": len(bounds)})
}

// numbers of consecutive rejected words presented before an ordinary one
var chainLadder = []int{16, 17, 18, 24, 31, 32, 33, 48, 63, 64, 65, 100, 127, 128, 129, 200, 255, 256, 257, 500, 512, 513, 1000, 1024, 1025}

func maxU32(a, b uint32) uint32 {
	if a > b {
		return a
	}
	return b
}

// ---- full-width sweep ----

type sweepReader struct {
	v      uint32
	k      int
	prefix []uint32 // words (rejected by the real draw) served before v
}

func (s *sweepReader) Read(p []byte) (int, error) {
	if len(p) < 4 {
		// never expected: the draw asks for 4 bytes; serve zero bytes to surface it
		for i := range p {
			p[i] = 0
		}
		s.k += 100
		return len(p), nil
	}
	switch {
	case s.k < len(s.prefix):
		binary.BigEndian.PutUint32(p, s.prefix[s.k])
	case s.k == len(s.prefix):
		binary.BigEndian.PutUint32(p, s.v)
	default:
		// words after v: a fixed scattered sequence, so that ANY sampler that accepts more than half of all words comes
		// to an end quickly (consecutive small numbers would all be rejected by a sampler that rejects at the low end)
		if s.k-len(s.prefix) > sweepStuckAfter {
			panic(sweepStuck{})
		}
		j := uint32(s.k - len(s.prefix) - 1)
		binary.BigEndian.PutUint32(p, (j+1)*2654435761+0x9E3779B9)
	}
	s.k++
	return 4, nil
}

// A draw that has rejected this many consecutive words of the scattered sequence does not terminate: a sampler that accepts more
// than half of all raw values rejects 4096 given, well spread words in a row with probability below 2^-4096.
const sweepStuckAfter = 4096

type sweepStuck struct{}

func sweepCall(n uint32, v uint64) (res uint32) {
	defer func() {
		if r := recover(); r != nil {
			if _, ok := r.(sweepStuck); ok {
				fmt.Printf("{\"stuck\":1,\"v\":%d}\n", v)
				os.Exit(6)
			}
			panic(r)
		}
	}()
	return spg.VerifRandomUint32n(n)
}

// sweep presents every raw word in [lo,hi) as the FIRST word of a draw with
// bound n and counts, per result, how many words were accepted at once.
func cmdSweep(args []string) {
	fs := flag.NewFlagSet("sweep", flag.ExitOnError)
	n64 := fs.Uint64("n", 62, "")
	lo := fs.Uint64("lo", 0, "")
	hi := fs.Uint64("hi", 1<<32, "")
	hist := fs.String("hist", "", "histogram output file")
	depth := fs.Int("depth", 1, "present v as the depth-th word, after depth-1 words the real draw rejects")
	countOnly := fs.Bool("countonly", false, "count accepted/rejected words only (no per-result histogram): for bounds too large for one")
	fs.Parse(args)
	n := uint32(*n64)
	r := &sweepReader{}
	if *depth > 1 {
		e := NewEnum(1)
		for len(r.prefix) < *depth-1 {
			w, ok := e.RejWord(n)
			if !ok {
				fmt.Println(`{"norejected":1}`)
				os.Exit(4) // the real draw rejects nothing for this bound: no continuation to examine
			}
			r.prefix = append(r.prefix, w)
		}
	}
	old := randReaderSwap(r)
	defer randReaderSwap(old)
	wide := n > 1<<24
	var h32 []uint32
	var h8 []uint8
	if *countOnly {
		var accepted, rejected, outOfRange uint64
		for v := *lo; v < *hi; v++ {
			r.v = uint32(v)
			r.k = 0
			res := sweepCall(n, v)
			if r.k == len(r.prefix)+1 {
				accepted++
				if res >= n {
					outOfRange++
				}
			} else {
				rejected++
			}
		}
		fmt.Printf("{\"accepted\":%d,\"rejected\":%d,\"outOfRange\":%d}\n", accepted, rejected, outOfRange)
		return
	}
	if wide {
		h8 = make([]uint8, uint64(n))
	} else {
		h32 = make([]uint32, n)
	}
	var accepted, rejected, outOfRange, odd, sat uint64
	for v := *lo; v < *hi; v++ {
		r.v = uint32(v)
		r.k = 0
		res := sweepCall(n, v)
		switch {
		case r.k == len(r.prefix)+1:
			accepted++
			if res >= n {
				outOfRange++
			} else if wide {
				if h8[res] == 255 {
					sat++
				} else {
					h8[res]++
				}
			} else {
				h32[res]++
			}
		case r.k >= 100:
			odd++
		default:
			rejected++
		}
	}
	f, err := os.Create(*hist)
	if err != nil {
		fatal("%v", err)
	}
	defer f.Close()
	hdr := make([]byte, 8*6)
	for i, x := range []uint64{uint64(n), accepted, rejected, outOfRange, odd, sat} {
		binary.LittleEndian.PutUint64(hdr[8*i:], x)
	}
	f.Write(hdr)
	if wide {
		f.Write(h8)
	} else {
		buf := make([]byte, 4*len(h32))
		for i, c := range h32 {
			binary.LittleEndian.PutUint32(buf[4*i:], c)
		}
		f.Write(buf)
	}
}

// sweepmerge sums shard histograms and emits one summary event.
// sweepcount turns summed counts of a count-only sweep into one event (with a quotient witness for TLC).
func cmdSweepCount(args []string) {
	fs := flag.NewFlagSet("sweepcount", flag.ExitOnError)
	out := fs.String("out", "sweepcount.ndjson", "")
	n := fs.Uint64("n", 0, "")
	acc := fs.Uint64("accepted", 0, "")
	rej := fs.Uint64("rejected", 0, "")
	oor := fs.Uint64("outofrange", 0, "")
	depth := fs.Int("depth", 1, "")
	fs.Parse(args)
	bn := new(big.Int).SetUint64(*n)
	qa, ra := new(big.Int).QuoRem(new(big.Int).SetUint64(*acc), bn, new(big.Int))
	M1 := new(big.Int).SetUint64(1<<32 - 1)
	qT, rT := new(big.Int).QuoRem(M1, bn, new(big.Int))
	em := NewEmitter(*out)
	em.Emit(map[string]interface{}{"op": "sweepcount", "n": LimbsU64(*n), "nDec": fmt.Sprint(*n), "depth": *depth, "accepted": LimbsU64(*acc), "acceptedDec": fmt.Sprint(*acc),
		"rejected": LimbsU64(*rej), "outOfRange": LimbsU64(*oor), "qa": Limbs(qa), "ra": Limbs(ra), "qT": Limbs(qT), "rT": Limbs(rT)})
	em.Close()
}

func cmdSweepMerge(args []string) {
	fs := flag.NewFlagSet("sweepmerge", flag.ExitOnError)
	out := fs.String("out", "sweep.ndjson", "")
	fs.Parse(args)
	files := fs.Args()
	var n uint64
	var tot [5]uint64
	var h []uint64
	for _, fn := range files {
		b, err := os.ReadFile(fn)
		if err != nil {
			fatal("%v", err)
		}
		nn := binary.LittleEndian.Uint64(b)
		if n == 0 {
			n = nn
			h = make([]uint64, n)
		} else if nn != n {
			fatal("mixed bounds")
		}
		for i := 0; i < 5; i++ {
			tot[i] += binary.LittleEndian.Uint64(b[8*(i+1):])
		}
		body := b[48:]
		if n > 1<<24 {
			for i := uint64(0); i < n; i++ {
				h[i] += uint64(body[i])
			}
		} else {
			for i := uint64(0); i < n; i++ {
				h[i] += uint64(binary.LittleEndian.Uint32(body[4*i:]))
			}
		}
	}
	mn, mx := h[0], h[0]
	var amn, amx uint64
	var nmin, nmax uint64
	for i, c := range h {
		if c < mn {
			mn, amn = c, uint64(i)
		}
		if c > mx {
			mx, amx = c, uint64(i)
		}
	}
	var sum uint64
	for _, c := range h {
		sum += c
		if c == mn {
			nmin++
		}
		if c == mx {
			nmax++
		}
	}
	M1 := new(big.Int).SetUint64(1<<32 - 1)
	bn := new(big.Int).SetUint64(n)
	qT, rT := new(big.Int).QuoRem(M1, bn, new(big.Int))
	em := NewEmitter(*out)
	ev := map[string]interface{}{
		"op": "sweep", "n": LimbsU64(n), "accepted": LimbsU64(tot[0]), "rejected": LimbsU64(tot[1]),
		"outOfRange": LimbsU64(tot[2]), "odd": LimbsU64(tot[3]), "saturated": LimbsU64(tot[4]),
		"min": LimbsU64(mn), "max": LimbsU64(mx), "argmin": LimbsU64(amn), "argmax": LimbsU64(amx),
		"nmin": LimbsU64(nmin), "nmax": LimbsU64(nmax), "sum": LimbsU64(sum),
		"qT": Limbs(qT), "rT": Limbs(rT), "pow2": b2i(n&(n-1) == 0),
		"nDec": fmt.Sprint(n), "minDec": fmt.Sprint(mn), "maxDec": fmt.Sprint(mx), "acceptedDec": fmt.Sprint(tot[0]),
	}
	em.Emit(ev)
	em.Close()
	json.NewEncoder(os.Stdout).Encode(ev)
}

func b2i(b bool) int {
	if b {
		return 1
	}
	return 0
}
