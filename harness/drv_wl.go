package main

// Wordlist drivers: NewWordList read-outs and complete choice trees (or
// selected paths) of the real WLRecipe.Generate.

import (
	"encoding/json"
	"flag"
	"fmt"
	"math/big"
	mrand "math/rand"
	"os"
	"reflect"
	"sort"
	"strings"

	"go.1password.io/spg"
)

func init() {
	commands["wltree"] = cmdWLTree
}

type WCellEv struct {
	Op           string    `json:"op"`
	ID           int       `json:"id"`
	Tag          string    `json:"tag"`
	WL           WLSpec    `json:"wl"`
	Titles       [][]int   `json:"titles"` // strings.Title of each input word (environment function, from the standard library)
	CtorErr      int       `json:"ctorErr"`
	Kept         [][]int   `json:"kept"`
	KeptTitles   [][]int   `json:"keptTitles"` // strings.Title of each kept word, parallel to Kept
	Uncap        int       `json:"uncap"`
	Size         int       `json:"size"`
	InputTouched int       `json:"inputTouched"`
	SepRecipe    *CharSpec `json:"sepRecipe,omitempty"` // recipe behind a recipe/preset separator
	SepKind      string    `json:"sepKind"`             // char | none | recipe
	MaxTrials    int       `json:"maxTrials"`
	FailRateOne  int       `json:"failRateOne"`
	Ent          Dyadic    `json:"ent"`
	Ent2         Dyadic    `json:"ent2"`
	Den          []int     `json:"den"`
	DenInt       int       `json:"denInt"`
	Complete     int       `json:"complete"`
	Opaque       int       `json:"opaque"`
	Unstable     int       `json:"unstable"`
	NLeaves      int       `json:"nleaves"`
	Mutated      int       `json:"mutated"`
	TwinDiff     int       `json:"twinDiff"`
	LineOn       int       `json:"lineOn"` // 1: the leaves are the complete line of one draw (all its values, other draws fixed)
	LineDraw     int       `json:"lineDraw"`
	SepZeroEnt   int       `json:"sepZeroEnt"` // 1: the separator function reports entropy 0 although it is random
	Grp          int       `json:"grp"`        // >0: all wcells with this group describe the same word multiset and recipe
	Times        int       `json:"times"`      // how many constructions produced exactly this outcome
	Aliased      int       `json:"aliased"`    // 1: the list changed when the caller later overwrote the slice it had passed in
	PrevChg      int       `json:"prevChg"`    // >0: an earlier password changed when a later one was generated
	ErrChg       int       `json:"errChg"`     // >0: an error value returned by an earlier call reads differently after a later call
}

func wlPublic(r spg.WLRecipe) []interface{} {
	return []interface{}{r.Length, r.SeparatorChar, r.Capitalize, r.SeparatorFunc == nil}
}

// runWLReps constructs the same multiset of words many times (permuted, with extra repetitions) and
// emits one wcell per DISTINCT observed outcome (kept set, uncapitalisable count, size, entropy).
func runWLReps(em *Emitter, id int, sc Scenario, seed int64) {
	sc.WL.norm()
	restore := setEnv(sc.MaxTrials, sc.FailRateOne)
	defer restore()
	rng := mrand.New(mrand.NewSource(seed))
	base := FromCPsList(sc.WL.Words)
	type outcome struct {
		cell  WCellEv
		times int
	}
	seen := map[string]*outcome{}
	order := []string{}
	bufs := map[int][]string{} // the caller reuses ONE buffer per length for its successive lists
	for rep := 0; rep < sc.Reps; rep++ {
		in0 := append([]string{}, base...)
		switch rep {
		case 0: // the input exactly as given (a sorted list stays sorted, a multiplicity stays what it is)
		case 1: // ... and reversed
			for i, j := 0, len(in0)-1; i < j; i, j = i+1, j-1 {
				in0[i], in0[j] = in0[j], in0[i]
			}
		default:
			for k := rng.Intn(3); k > 0 && len(base) > 0; k-- { // repetitions
				in0 = append(in0, base[rng.Intn(len(base))])
			}
			rng.Shuffle(len(in0), func(i, j int) { in0[i], in0[j] = in0[j], in0[i] })
		}
		novel := rep%50 == 49 && len(in0) > 0 && len(in0) < 100
		if novel { // now and then other content in the same buffer
			in0[0] = fmt.Sprintf("zq%dx", rep)
		}
		in := bufs[len(in0)]
		if in == nil {
			in = make([]string, len(in0))
			bufs[len(in0)] = in
		}
		copy(in, in0)
		w := *sc.WL
		w.Words = CPsList(in)
		cell := WCellEv{Op: "wcell", ID: id, Tag: sc.Tag, WL: w, Titles: [][]int{}, Kept: [][]int{}, KeptTitles: [][]int{}, MaxTrials: spg.MaxTrials,
			FailRateOne: sc.FailRateOne, Den: []int{}, DenInt: -1, SepKind: "char", Grp: id + 1}
		for _, s := range in {
			cell.Titles = append(cell.Titles, CPs(strings.Title(s)))
		}
		if novel {
			cell.Grp = 0 // another multiset: not comparable with the other constructions of this scenario
		}
		switch w.Sep {
		case "", "char":
		case "SFNone":
			cell.SepKind = "none"
		case "recipe", "custom0":
			cell.SepKind = "recipe"
			cell.SepRecipe = w.SepRecipe
			if w.Sep == "custom0" {
				cell.SepZeroEnt = 1
			}
		case "customlist":
			cell.SepKind = "list"
		default:
			if pr, ok := presetRecipes[w.Sep]; ok {
				cs := CharSpecOf(pr)
				cell.SepKind = "recipe"
				cell.SepRecipe = &cs
			}
		}
		inCopy := append([]string{}, in...)
		wl, err := spg.NewWordList(in)
		if err != nil {
			cell.CtorErr = 1
		} else {
			kept, uncap := spg.VerifWordListState(wl)
			sort.Strings(kept)
			cell.Kept = CPsList(kept)
			for _, k := range kept {
				cell.KeptTitles = append(cell.KeptTitles, CPs(strings.Title(k)))
			}
			cell.Uncap = uncap
			cell.Size = int(wl.Size())
			r, _, _ := w.Build(wl)
			cell.Ent = DyadicOf(r.Entropy())
			cell.Ent2 = DyadicOf(r.Entropy())
		}
		if !reflect.DeepEqual(in, inCopy) {
			cell.InputTouched = 1
		}
		if wl != nil && err == nil {
			// the caller recycles its slice: the list must not notice
			for i := range in {
				in[i] = "RECYCLED"
			}
			kept2, uncap2 := spg.VerifWordListState(wl)
			sort.Strings(kept2)
			if !reflect.DeepEqual(CPsList(kept2), cell.Kept) || uncap2 != cell.Uncap || int(wl.Size()) != cell.Size {
				cell.Aliased = 1
			}
		}
		// key: everything observable except the (permuted) input itself
		kc := cell
		kc.WL.Words, kc.Titles = nil, nil
		kb, _ := json.Marshal(kc)
		key := string(kb)
		if o, ok := seen[key]; ok {
			o.times++
		} else {
			seen[key] = &outcome{cell, 1}
			order = append(order, key)
		}
	}
	for _, k := range order {
		c := seen[k].cell
		c.Times = seen[k].times
		em.Emit(c)
		em.Emit(map[string]interface{}{"op": "wcellend", "id": id})
	}
}

func runWLCell(em *Emitter, id int, sc Scenario, seed int64) {
	if sc.Reps > 0 {
		runWLReps(em, id, sc, seed)
		return
	}
	for _, ev := range wlCellEvents(id, sc, seed, nil, nil) {
		em.Emit(ev)
	}
}

// wlCellEvents runs the scenario; with pre != nil the calls are made on that existing recipe value (whose list is preWL,
// built from sc.WL.Words) instead of a freshly built one.
func wlCellEvents(id int, sc Scenario, seed int64, pre *spg.WLRecipe, preWL *spg.WordList) (events []interface{}) {
	sc.WL.norm()
	restore := setEnv(sc.MaxTrials, sc.FailRateOne)
	defer restore()
	w := *sc.WL
	cell := WCellEv{Op: "wcell", ID: id, Tag: sc.Tag, WL: w, Titles: [][]int{}, Kept: [][]int{}, KeptTitles: [][]int{}, MaxTrials: spg.MaxTrials,
		FailRateOne: sc.FailRateOne, Den: []int{}, DenInt: -1, SepKind: "char"}
	input := FromCPsList(w.Words)
	for _, s := range input {
		cell.Titles = append(cell.Titles, CPs(strings.Title(s)))
	}
	inputCopy := append([]string{}, input...)
	switch w.Sep {
	case "", "char":
		cell.SepKind = "char"
	case "SFNone":
		cell.SepKind = "none"
	case "recipe", "custom0":
		cell.SepKind = "recipe"
		cell.SepRecipe = w.SepRecipe
		if w.Sep == "custom0" {
			cell.SepZeroEnt = 1
		}
	case "customlist":
		cell.SepKind = "list"
	default:
		if pr, ok := presetRecipes[w.Sep]; ok {
			cs := CharSpecOf(pr)
			cell.SepKind = "recipe"
			cell.SepRecipe = &cs
		}
	}
	var r spg.WLRecipe
	var wl *spg.WordList
	var err error
	func() {
		defer func() {
			if rec := recover(); rec != nil {
				cell.CtorErr = 2
			}
		}()
		if pre != nil {
			wl = preWL
			return
		}
		if w.NoList == 0 {
			wl, err = spg.NewWordList(input)
			if err != nil {
				cell.CtorErr = 1
			}
		}
	}()
	if !reflect.DeepEqual(input, inputCopy) {
		cell.InputTouched = 1
	}
	if cell.CtorErr != 0 {
		return []interface{}{&cell, map[string]interface{}{"op": "wcellend", "id": id}}
	}
	rp := &r
	if pre != nil {
		rp = pre
	} else {
		r, wl, err = w.Build(wl)
		if err != nil {
			fatal("scenario %d: %v", id, err)
		}
	}
	if wl != nil {
		kept, uncap := spg.VerifWordListState(wl)
		cell.Kept = CPsList(kept)
		for _, k := range kept {
			cell.KeptTitles = append(cell.KeptTitles, CPs(strings.Title(k)))
		}
		cell.Uncap = uncap
		cell.Size = int(wl.Size())
		if pre == nil && w.NoList == 0 {
			// the caller recycles the slice it passed in: every leaf below and the re-read at the end must not notice
			for i := range input {
				input[i] = "RECYCLED"
			}
			inputCopy = append([]string{}, input...)
		}
	}
	if sc.Prefault > 0 && wl != nil && pre == nil {
		// an earlier call in this process, on a capitalising recipe over the same list, whose source failed half-way
		fe := NewEnum(seed + 77)
		fe.FailAtRead = sc.Prefault
		fe.Policy = func(j int, n uint32) uint32 { return uint32(fe.Rng.Int63n(int64(n))) }
		fr := *rp
		fr.Capitalize = []spg.CapScheme{spg.CSAll, spg.CSRandom, spg.CSOne}[sc.Prefault%3]
		if fr.Length < 4 {
			fr.Length = 4
		}
		fe.Run(nil, func() { fr.Generate() })
		if sc.Prefault%2 == 0 {
			// ... and a call whose caller-written separator function panics (inside Entropy()'s probe and inside Generate)
			fp := *rp
			fp.SeparatorFunc = func() (string, spg.FloatE) { panic("verif: the caller's separator function failed") }
			if fp.Length < 3 {
				fp.Length = 3
			}
			fe2 := NewEnum(seed + 78)
			fe2.Policy = fe.Policy
			fe2.Run(nil, func() { fp.Entropy() })
			fe2.Run(nil, func() { fp.Generate() })
		}
	}
	before := wlPublic(*rp)
	e := NewEnum(seed)
	e.MaxProd = 1 << 26
	randomPolicy := func(j int, n uint32) uint32 { return uint32(e.Rng.Int63n(int64(n))) }
	entropyOnce := func() Dyadic {
		d := Dyadic{K: "panic"}
		e.Policy = randomPolicy
		e.Run(nil, func() { d = DyadicOf(rp.Entropy()) })
		e.Policy = nil
		return d
	}
	cell.Ent = entropyOnce()
	cell.Ent2 = entropyOnce()
	type lf struct {
		ev   LeafEv
		prod *big.Int
	}
	var leaves []lf
	// a password handed out earlier must not change when a later one is generated (shared token buffers)
	var lastP *spg.Password
	var lastRes GenRes
	body := func(res *GenRes) func() {
		return func() {
			p, err := rp.Generate()
			*res = ResOf(p, err, nil)
			if lastP != nil && !reflect.DeepEqual(ResOf(lastP, nil, nil), lastRes) {
				cell.PrevChg++
			}
			if errChanged(err) {
				cell.ErrChg++
			}
			if err == nil && p != nil {
				lastP, lastRes = p, *res
			}
		}
	}
	visit := func(plan []uint32, out RunOut, res GenRes) {
		if out.Panic != nil {
			res = ResOf(nil, nil, out.Panic)
		}
		if out.Cut {
			res = GenRes{Kind: "cut", Toks: []TokJ{}, Str: []int{}, Ent: DyadicOf(0)}
		}
		ev := LeafEv{Op: "wleaf", D: [][2]int{}, Reads: out.Tape.Reads, Words: len(out.Tape.Words), Left: out.Tape.Leftover(),
			Unann: out.Unannounced, Det: -1, Res: res, PathW: []int{}}
		prod := big.NewInt(1)
		for _, d := range out.Draws {
			ev.D = append(ev.D, [2]int{int(d.N), int(d.I)})
			ev.Rej += d.Rej
			prod.Mul(prod, big.NewInt(int64(d.N)))
		}
		ev.ND = len(ev.D)
		ev.PathProd = Limbs(prod)
		if len(leaves) < 2 {
			ev.PPC = 1
		}
		if out.CfgTouched {
			ev.Cfg = 1
		}
		if len(ev.D) > 1200 {
			ev.D, ev.Trunc = ev.D[:1200], 1
		}
		if out.Unstable || out.NoRep {
			cell.Unstable = 1
		}
		if out.Unannounced > 0 {
			cell.Opaque = 1
		}
		e2 := *e
		e2.Policy = nil
		e2.Chunk = [][]int{{1}, {2, 1}, {3}, {1, 3}, {-1, 2, -1, 2}, {-1, -1, -1, -1, 4}, {1, -1, 1, -1, 1, 1}}[e.Rng.Intn(7)]
		var res2 GenRes
		out2 := e2.Run(plan, body(&res2))
		if out2.Panic != nil {
			res2 = ResOf(nil, nil, out2.Panic)
		}
		if out.Cut {
			res2 = res
		}
		if reflect.DeepEqual(res, res2) {
			ev.Det = 1
		} else if res2.Kind == "panic" && res.Kind != "panic" {
			ev.Det = -1 // the re-run (short deliveries) was aborted: allowed by C09's second sentence, no password was built
		} else {
			ev.Det = 0
		}
		if out.Tape.Leftover() > 0 || out.Unannounced > 0 {
			// the code did not read exactly what the announced draws were given: the scripted words no longer line up with
			// the draws, so this run says nothing about index -> outcome (no distribution or determinism verdict from it)
			cell.Unstable = 1
			ev.Det = -1
		}
		if out.Prefetch || out2.Prefetch {
			// some read asked for more than one word: the code fetches words ahead of the draws that use them, so which scripted word
			// served which draw is a matter of luck (this run may line up and its re-run not): no distribution or determinism verdict
			cell.Unstable = 1
			ev.Det = -1
		}
		// (when only the RE-RUN, fed the same bytes in short chunks, fails to line up, the cell stays decidable from the
		// fully delivered run, and a differing result is the determinism finding det = 0: the code did not complete a short read)
		leaves = append(leaves, lf{ev, prod})
	}
	maxLeaves := sc.MaxLeaves
	if maxLeaves == 0 {
		maxLeaves = 20000
	}
	if sc.Mode == "line" {
		// all values of ONE draw, every other draw held at a seeded fixed index: a complete marginal
		e.MaxProd, e.MaxDraws = 0, 400000
		e.RejectProb = 0
		var res GenRes
		fixed := map[int]uint32{}
		pr := mrand.New(mrand.NewSource(seed + 99))
		e.Policy = func(j int, n uint32) uint32 {
			if v, ok := fixed[j]; ok && v < n {
				return v
			}
			v := uint32(pr.Int63n(int64(n)))
			fixed[j] = v
			return v
		}
		base := e.Run(nil, body(&res))
		target := sc.Line
		if target < 0 || target >= len(base.Draws) {
			target = 0
		}
		cell.LineOn, cell.LineDraw = 1, target
		if len(base.Draws) > 0 {
			n := base.Draws[target].N
			for i := uint32(0); i < n; i++ {
				plan := make([]uint32, target+1)
				for j := 0; j < target; j++ {
					plan[j] = base.Draws[j].I
				}
				plan[target] = i
				out := e.Run(plan, body(&res))
				full := make([]uint32, len(out.Draws))
				for k, d := range out.Draws {
					full[k] = d.I
				}
				visit(full, out, res)
			}
		}
		e.Policy = nil
	} else if sc.Mode == "paths" {
		e.MaxProd, e.MaxDraws = 0, 400000
		for k := 0; k < sc.Paths; k++ {
			var res GenRes
			kind := k
			e.Policy = func(j int, n uint32) uint32 {
				switch kind {
				case 0:
					return 0
				case 1:
					return n - 1
				}
				return uint32(e.Rng.Int63n(int64(n)))
			}
			out := e.Run(nil, body(&res))
			e.Policy = nil
			full := make([]uint32, len(out.Draws))
			for i, d := range out.Draws {
				full[i] = d.I
			}
			visit(full, out, res)
		}
	} else {
		var res GenRes
		complete, _ := e.Tree(maxLeaves, body(&res), func(plan []uint32, out RunOut) bool {
			visit(plan, out, res)
			return true
		})
		if complete && cell.Unstable == 0 {
			cell.Complete = 1
		}
	}
	if !reflect.DeepEqual(before, wlPublic(*rp)) {
		cell.Mutated = 1
	}
	if !reflect.DeepEqual(input, inputCopy) {
		cell.InputTouched = 1
	}
	if wl != nil {
		kept2, uncap2 := spg.VerifWordListState(wl)
		if !reflect.DeepEqual(CPsList(kept2), cell.Kept) || uncap2 != cell.Uncap {
			cell.Mutated = 1
		}
	}
	cell.NLeaves = len(leaves)
	if cell.Complete == 1 {
		den := big.NewInt(1)
		for _, l := range leaves {
			g := new(big.Int).GCD(nil, nil, den, l.prod)
			den.Mul(den, new(big.Int).Quo(l.prod, g))
		}
		cell.Den = Limbs(den)
		if den.BitLen() <= 30 {
			cell.DenInt = int(den.Int64())
		}
		for i := range leaves {
			leaves[i].ev.PathW = Limbs(new(big.Int).Quo(den, leaves[i].prod))
		}
	}
	if len(e.Unreachable) > 0 {
		cell.Unstable = 1
	}
	events = append(events, &cell)
	for _, l := range leaves {
		events = append(events, l.ev)
	}
	events = append(events, map[string]interface{}{"op": "wcellend", "id": id})
	return events
}

func cmdWLTree(args []string) {
	fs := flag.NewFlagSet("wltree", flag.ExitOnError)
	seed := fs.Int64("seed", 1, "")
	out := fs.String("out", "wl.ndjson", "")
	scen := fs.String("scen", "", "scenario file (NDJSON)")
	shard := fs.Int("shard", 0, "")
	shards := fs.Int("shards", 1, "")
	fs.Parse(args)
	_ = mrand.New
	scs := readScenarios(*scen)
	em := NewEmitter(*out)
	cells, leaves := 0, 0
	for i, sc := range scs {
		if i%*shards != *shard || sc.Kind != "wl" || sc.WL == nil {
			continue
		}
		n0 := em.N
		if !withDeadline(func() { runWLCell(em, i, sc, *seed*1000003+int64(i)) }, cellDeadline) {
			// the library did not come back (e.g. an exponential count or an unbounded loop): keep what is complete, stop this shard
			em.Close()
			fmt.Printf("{\"cells\":%d,\"leaves\":%d,\"timeout\":%d}\n", cells, leaves, i)
			os.Exit(5)
		}
		cells++
		leaves += em.N - n0 - 2
	}
	em.Close()
	fmt.Printf("{\"cells\":%d,\"leaves\":%d}\n", cells, leaves)
}
