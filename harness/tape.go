package main

// Tape is a scripted io.Reader installed as crypto/rand.Reader. It serves
// 4-byte big-endian words, can deliver them in short chunks, can fail at a
// chosen read, and records every Read call.

import (
	"crypto/rand"
	"encoding/binary"
	"errors"
	"io"
)

type ReadRec struct {
	Req int  `json:"req"`
	Got int  `json:"got"`
	Err bool `json:"err"`
}

type Tape struct {
	buf         []byte                // bytes still to deliver
	Supply      func() (uint32, bool) // called when buf is empty; false => tape exhausted
	Chunk       []int                 // delivery sizes cycle (0/empty => deliver everything requested)
	chunkPos    int
	chunkFrom   int   // chunking applies from this 1-based Read call on (0/1: from the start)
	FailAt      int   // 1-based index of the Read call that fails (0 = never)
	FailGot     int   // bytes delivered by the failing call before the error
	FailErr     error // error returned by the failing call (default ErrTapeFault)
	Reads       int
	Bytes       int
	Words       []uint32 // every word handed out, in order
	Log         []ReadRec
	KeepLog     bool
	Exhausted   bool
	Unannounced int // words supplied by the fallback (no draw announced)
	MaxReq      int // largest single Read request: > 4 means the code fetches words ahead of the draws that will use them
}

var ErrTapeFault = errors.New("verif: injected random source failure")
var ErrTapeEnd = errors.New("verif: tape exhausted")

func (t *Tape) Push(w uint32) {
	var b [4]byte
	binary.BigEndian.PutUint32(b[:], w)
	t.buf = append(t.buf, b[:]...)
	t.Words = append(t.Words, w)
}

func (t *Tape) Read(p []byte) (int, error) {
	t.Reads++
	if len(p) > t.MaxReq {
		t.MaxReq = len(p)
	}
	if t.FailAt != 0 && t.Reads == t.FailAt {
		n := t.FailGot
		if n > len(p) {
			n = len(p)
		}
		for len(t.buf) < n {
			if !t.refill() {
				break
			}
		}
		if n > len(t.buf) {
			n = len(t.buf)
		}
		copy(p, t.buf[:n])
		t.buf = t.buf[n:]
		t.Bytes += n
		if t.KeepLog {
			t.Log = append(t.Log, ReadRec{len(p), n, true})
		}
		if t.FailErr != nil {
			return n, t.FailErr
		}
		return n, ErrTapeFault
	}
	want := len(p)
	if len(t.Chunk) > 0 && t.Reads >= t.chunkFrom {
		c := t.Chunk[t.chunkPos%len(t.Chunk)]
		t.chunkPos++
		if c < 0 {
			// a read that delivers nothing and reports no error (legal for an io.Reader; io.ReadFull simply asks again)
			if t.KeepLog {
				t.Log = append(t.Log, ReadRec{len(p), 0, false})
			}
			return 0, nil
		}
		if c > 0 && c < want {
			want = c
		}
	}
	for len(t.buf) < want {
		if !t.refill() {
			break
		}
	}
	if len(t.buf) == 0 && want > 0 {
		t.Exhausted = true
		if t.KeepLog {
			t.Log = append(t.Log, ReadRec{len(p), 0, true})
		}
		return 0, ErrTapeEnd
	}
	if want > len(t.buf) {
		want = len(t.buf)
	}
	copy(p, t.buf[:want])
	t.buf = t.buf[want:]
	t.Bytes += want
	if t.KeepLog {
		t.Log = append(t.Log, ReadRec{len(p), want, false})
	}
	return want, nil
}

func (t *Tape) refill() bool {
	if t.Supply == nil {
		return false
	}
	w, ok := t.Supply()
	if !ok {
		return false
	}
	t.Push(w)
	return true
}

// Leftover reports bytes pushed but never read.
func (t *Tape) Leftover() int { return len(t.buf) }

var realReader io.Reader = rand.Reader

func Install(t *Tape) { rand.Reader = t }
func Uninstall()      { rand.Reader = realReader }
