package main

// Helpers for the CLI check: the shipped lists with their title-cased forms,
// and strings.Title for arbitrary words (the environment function of the
// specification).

import (
	"encoding/json"
	"flag"
	"fmt"
	"io"
	"os"
	"strings"
	"unicode/utf8"

	"go.1password.io/spg"
)

func init() {
	commands["lists"] = cmdLists
	commands["titlemap"] = cmdTitleMap
}

func cmdLists(args []string) {
	fs := flag.NewFlagSet("lists", flag.ExitOnError)
	out := fs.String("out", "aux.ndjson", "")
	fs.Parse(args)
	em := NewEmitter(*out)
	for _, l := range []struct {
		name string
		ws   []string
	}{{"words", spg.AgileWords}, {"syllables", spg.AgileSyllables}} {
		titles := make([]string, len(l.ws))
		maxlen := 0
		for i, w := range l.ws {
			titles[i] = strings.Title(w)
			if n := utf8.RuneCountInString(w); n > maxlen {
				maxlen = n
			}
		}
		em.Emit(map[string]interface{}{"name": l.name, "words": CPsList(l.ws), "titles": CPsList(titles), "maxlen": maxlen})
	}
	em.Close()
	fmt.Println(`{"ok":1}`)
}

func cmdTitleMap(args []string) {
	b, _ := io.ReadAll(os.Stdin)
	var ws []string
	if err := json.Unmarshal(b, &ws); err != nil {
		fatal("%v", err)
	}
	out := map[string]string{}
	for _, w := range ws {
		out[w] = strings.Title(w)
	}
	json.NewEncoder(os.Stdout).Encode(out)
}
