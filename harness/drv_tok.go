package main

// Token index drivers (C11, C12): encode/decode round trips of token
// sequences built through the public API, decoding of arbitrary index
// bytes, and round trips of generated passwords.

import (
	"bufio"
	"encoding/json"
	"flag"
	"fmt"
	"math"
	"os"

	"go.1password.io/spg"
)

func init() {
	commands["tokens"] = cmdTokens
}

type TokScen struct {
	Op    string    `json:"op"` // rt | dec | gen
	Toks  []TokJ    `json:"toks"`
	Str   []int     `json:"str"`
	Idx   []int     `json:"idx"`
	Words [][]int   `json:"words"`
	Len   int       `json:"len"`
	Cap   string    `json:"cap"`
	SepC  []int     `json:"sepChar"`
	Sep   string    `json:"sep"`
	Char  *CharSpec `json:"char"`
}

type EncRes struct {
	Kind string `json:"kind"` // ok | err | nil | panic
	Idx  []int  `json:"idx"`
}
type DecRes struct {
	Kind    string `json:"kind"` // ok | err | panic
	Toks    []TokJ `json:"toks"`
	EntSame int    `json:"entSame"`
}

func encode(ts spg.Tokens) (r EncRes) {
	r.Idx = []int{}
	defer func() {
		if recover() != nil {
			r.Kind = "panic"
		}
	}()
	ix, err := ts.MakeIndices()
	switch {
	case err != nil:
		r.Kind = "err"
	case ix == nil:
		r.Kind = "nil"
	default:
		r.Kind = "ok"
		for _, b := range ix {
			r.Idx = append(r.Idx, int(b))
		}
	}
	return
}

func decode(s string, idx []int, ent float32) (r DecRes) {
	r.Toks = []TokJ{}
	defer func() {
		if recover() != nil {
			r.Kind = "panic"
			r.Toks = []TokJ{}
		}
	}()
	ix := make(spg.Indices, len(idx))
	for i, b := range idx {
		ix[i] = byte(b)
	}
	p, err := spg.Tokenize(s, ix, ent)
	if err != nil {
		r.Kind = "err"
		return
	}
	r.Kind = "ok"
	r.Toks = TokJs(p.Tokens())
	if math.Float32bits(p.Entropy) == math.Float32bits(ent) {
		r.EntSame = 1
	}
	return
}

// build constructs an arbitrary token sequence through the public API (a full index admits any types and lengths <= 255).
// builtStr is what Password.String() says for the password last built (the string a caller would store next to the index)
var builtStr string
var builtOK bool

func build(toks []TokJ) (spg.Tokens, bool) {
	builtOK = false
	s := ""
	idx := []int{3}
	for _, t := range toks {
		if len(t.V) > 255 || t.T < 0 || t.T > 255 {
			return nil, false
		}
		s += FromCPs(t.V)
		idx = append(idx, len(t.V), t.T)
	}
	d := decode(s, idx, 1)
	if d.Kind != "ok" {
		return nil, false
	}
	ix := make(spg.Indices, len(idx))
	for i, b := range idx {
		ix[i] = byte(b)
	}
	p, err := spg.Tokenize(s, ix, 1)
	if err != nil {
		return nil, false
	}
	builtStr, builtOK = p.String(), true
	return p.Tokens(), true
}

func cmdTokens(args []string) {
	fs := flag.NewFlagSet("tokens", flag.ExitOnError)
	scen := fs.String("scen", "", "")
	out := fs.String("out", "tok.ndjson", "")
	shard := fs.Int("shard", 0, "")
	shards := fs.Int("shards", 1, "")
	fs.Parse(args)
	f, err := os.Open(*scen)
	if err != nil {
		fatal("%v", err)
	}
	defer f.Close()
	em := NewEmitter(*out)
	sc := bufio.NewScanner(f)
	sc.Buffer(make([]byte, 1<<20), 1<<26)
	ent := float32(37.25)
	i := -1
	for sc.Scan() {
		i++
		if i%*shards != *shard || len(sc.Bytes()) == 0 {
			continue
		}
		var s TokScen
		if err := json.Unmarshal(sc.Bytes(), &s); err != nil {
			fatal("scenario: %v", err)
		}
		switch s.Op {
		case "rt":
			ts, ok := build(s.Toks)
			if !ok {
				em.Emit(map[string]interface{}{"op": "skip", "why": "not constructible through the public API"})
				continue
			}
			e2 := ent
			if i%4 == 1 {
				e2 = 0 // a password of a recipe without any choice has zero entropy
			} else if i%16 == 2 {
				e2 = -1.5
			} else if i%16 == 6 {
				e2 = float32(math.NaN())
			}
			wantRT = s.Toks
			nextPStr, nextHasP = builtStr, builtOK
			emitRT(em, ts, e2, "built")
			wantRT = nil
		case "dec":
			if s.Str == nil {
				s.Str = []int{}
			}
			if s.Idx == nil {
				s.Idx = []int{}
			}
			d := decode(FromCPs(s.Str), s.Idx, ent)
			em.Emit(map[string]interface{}{"op": "dec", "str": s.Str, "idx": s.Idx, "res": d})
			if i%3 == 0 { // the same string and index again, with another entropy: the result must carry THAT entropy
				d2 := decode(FromCPs(s.Str), s.Idx, ent+1.5)
				em.Emit(map[string]interface{}{"op": "dec", "str": s.Str, "idx": s.Idx, "res": d2})
				d3 := decode(FromCPs(s.Str), s.Idx, 0)
				em.Emit(map[string]interface{}{"op": "dec", "str": s.Str, "idx": s.Idx, "res": d3})
				// ... whatever it is: the entropy is the caller's statement, passed through bit for bit
				for _, odd := range []float32{float32(math.NaN()), -2.5, float32(math.Inf(-1)), float32(math.Inf(1)), float32(math.Copysign(0, -1))} {
					dx := decode(FromCPs(s.Str), s.Idx, odd)
					em.Emit(map[string]interface{}{"op": "dec", "str": s.Str, "idx": s.Idx, "res": dx})
				}
			}
		case "gen":
			var p *spg.Password
			var err error
			if s.Char != nil {
				s.Char.norm()
				p, err = s.Char.Recipe().Generate()
			} else {
				w := WLSpec{Words: s.Words, Len: s.Len, Cap: s.Cap, Sep: s.Sep, SepChar: s.SepC}
				w.norm()
				r, _, berr := w.Build(nil)
				if berr != nil {
					em.Emit(map[string]interface{}{"op": "skip", "why": "list rejected"})
					continue
				}
				p, err = r.Generate()
			}
			if err != nil || p == nil {
				em.Emit(map[string]interface{}{"op": "skip", "why": "not generated"})
				continue
			}
			nextPStr, nextHasP = p.String(), true
			emitRT(em, p.Tokens(), p.Entropy, "generated")
		}
	}
	flushRT(em)
	em.Close()
	fmt.Printf("{\"events\":%d}\n", em.N)
}

type pendingRT struct {
	want []TokJ // the tokens that were to be built (nil for generated passwords)
	ts   spg.Tokens
	ent  float32
	how  string
	enc  EncRes
	raw  spg.Indices // the very slice MakeIndices returned (not a copy): it must still be valid when it is used later
	pstr string      // Password.String() of the password these tokens belong to
	hasP bool
}

var nextPStr string
var nextHasP bool

var rtBatch []pendingRT
var wantRT []TokJ

// emitRT encodes now and decodes later: indices of a whole batch are produced before any of them is used,
// so that an index must not depend on MakeIndices calls made after it.
func emitRT(em *Emitter, ts spg.Tokens, ent float32, how string) {
	p := pendingRT{ts: ts, ent: ent, how: how, enc: encode(ts), want: wantRT, pstr: nextPStr, hasP: nextHasP}
	nextHasP = false
	func() {
		defer func() { recover() }()
		p.raw, _ = ts.MakeIndices()
	}()
	rtBatch = append(rtBatch, p)
	if len(rtBatch) >= 6 {
		flushRT(em)
	}
}

func flushRT(em *Emitter) {
	for _, p := range rtBatch {
		// what the stored index says NOW, after the other indices of the batch were made
		if p.enc.Kind == "ok" {
			now := []int{}
			for _, b := range p.raw {
				now = append(now, int(b))
			}
			p.enc.Idx = now
		}
		curWant = p.want
		curPStr, curHasP = p.pstr, p.hasP
		emitRTNow(em, p.ts, p.ent, p.how, p.enc)
	}
	// the caller rearranges a token slice it has already asked an index for, in place (same backing array, same length):
	// the next index is that of the tokens the slice holds NOW
	for k, p := range rtBatch {
		if len(p.ts) < 2 || k%2 == 1 {
			continue
		}
		ts := p.ts
		func() {
			defer func() { recover() }()
			_ = ts.Kind() // asked just before the edit ...
			ts.MakeIndices()
		}()
		ts[0], ts[1] = ts[1], ts[0]
		if k > 0 && len(rtBatch[k-1].ts) > 0 {
			ts[len(ts)-1] = rtBatch[k-1].ts[0]
		}
		curWant, curHasP = nil, false
		emitRTNow(em, ts, p.ent, "edited-in-place", encode(ts))
	}
	rtBatch = nil
}

var curWant []TokJ
var curPStr string
var curHasP bool

func emitRTNow(em *Emitter, ts spg.Tokens, ent float32, how string, enc EncRes) {
	p := spg.Password{}
	_ = p
	str := ""
	for _, t := range ts {
		str += t.Value()
	}
	if curHasP {
		str = curPStr // what Password.String() returned: the string a caller stores next to the index
	}
	dec := DecRes{Kind: "none", Toks: []TokJ{}}
	dec2 := DecRes{Kind: "none", Toks: []TokJ{}}
	if enc.Kind == "ok" {
		dec = decode(str, enc.Idx, ent)
		// the same string and index decoded again at once with ANOTHER entropy: the entropy is an argument, not part of what is decoded
		other := ent + 1.5
		if math.IsNaN(float64(ent)) || ent == 0 {
			other = 21.75
		}
		dec2 = decode(str, enc.Idx, other)
	}
	want := curWant
	if want == nil {
		want = TokJs(ts)
	}
	for i := range want {
		if want[i].V == nil {
			want[i].V = []int{}
		}
	}
	em.Emit(map[string]interface{}{"op": "rt", "how": how, "want": want, "toks": TokJs(ts), "str": CPs(str), "kindGo": int(ts.Kind()), "enc": enc, "dec": dec, "dec2": dec2,
		"atoms": CPsList(ts.Atoms()), "seps": CPsList(ts.Separators())})
}
