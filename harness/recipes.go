package main

import (
	"bufio"
	"encoding/json"
	"fmt"
	"math"
	"os"
	"regexp"
	"strings"

	"go.1password.io/spg"
)

// ---- scenario descriptions (JSON in, echoed in traces) ----

type CharSpec struct {
	Len          int     `json:"len"`
	Allow        int     `json:"allow"`
	Require      int     `json:"require"`
	Exclude      int     `json:"exclude"`
	AllowChars   []int   `json:"allowChars"`
	RequireSets  [][]int `json:"requireSets"`
	ExcludeChars []int   `json:"excludeChars"`
}

func (c *CharSpec) norm() {
	if c.AllowChars == nil {
		c.AllowChars = []int{}
	}
	if c.ExcludeChars == nil {
		c.ExcludeChars = []int{}
	}
	if c.RequireSets == nil {
		c.RequireSets = [][]int{}
	}
	for i := range c.RequireSets {
		if c.RequireSets[i] == nil {
			c.RequireSets[i] = []int{}
		}
	}
}

func (c CharSpec) Recipe() spg.CharRecipe {
	r := spg.CharRecipe{
		Length: c.Len, Allow: spg.CTFlag(c.Allow), Require: spg.CTFlag(c.Require), Exclude: spg.CTFlag(c.Exclude),
		AllowChars: FromCPs(c.AllowChars), ExcludeChars: FromCPs(c.ExcludeChars),
	}
	if (c.Len+c.Allow+len(c.AllowChars))%3 == 1 {
		// the other way to make the same recipe: the constructor (with another length), then every field assigned
		r = *spg.NewCharRecipe(c.Len + 2)
		r.Length, r.Allow, r.Require, r.Exclude = c.Len, spg.CTFlag(c.Allow), spg.CTFlag(c.Require), spg.CTFlag(c.Exclude)
		r.AllowChars, r.ExcludeChars = FromCPs(c.AllowChars), FromCPs(c.ExcludeChars)
	}
	if len(c.RequireSets) > 0 {
		r.RequireSets = FromCPsList(c.RequireSets)
	}
	return r
}

func CharSpecOf(r spg.CharRecipe) CharSpec {
	c := CharSpec{Len: r.Length, Allow: int(r.Allow), Require: int(r.Require), Exclude: int(r.Exclude),
		AllowChars: CPs(r.AllowChars), ExcludeChars: CPs(r.ExcludeChars), RequireSets: CPsList(r.RequireSets)}
	c.norm()
	return c
}

// WLSpec describes a wordlist recipe. Sep: "char" (SeparatorChar, SeparatorFunc nil),
// "recipe" (NewSFFunction(SepRecipe)), or a preset name.
type WLSpec struct {
	Words     [][]int   `json:"words"`  // input list as given to NewWordList
	NoList    int       `json:"nolist"` // 1: recipe literal without list; 2: new(WordList)
	Len       int       `json:"len"`
	Cap       string    `json:"cap"`
	Sep       string    `json:"sep"`
	SepChar   []int     `json:"sepChar"`
	SepRecipe *CharSpec `json:"sepRecipe,omitempty"`
	SepVals   [][]int   `json:"sepVals"` // customlist: the values of a caller-written separator function
}

func (w *WLSpec) norm() {
	if w.Words == nil {
		w.Words = [][]int{}
	}
	if w.SepChar == nil {
		w.SepChar = []int{}
	}
	if w.SepVals == nil {
		w.SepVals = [][]int{}
	}
	if w.SepRecipe != nil {
		w.SepRecipe.norm()
	}
}

var presets = map[string]*spg.SFFunction{
	"SFNone": &spg.SFNone, "SFDigits1": &spg.SFDigits1, "SFDigits2": &spg.SFDigits2,
	"SFDigitsNoAmbiguous1": &spg.SFDigitsNoAmbiguous1, "SFDigitsNoAmbiguous2": &spg.SFDigitsNoAmbiguous2,
	"SFSymbols": &spg.SFSymbols, "SFDigitsSymbols": &spg.SFDigitsSymbols,
}

var presetRecipes = map[string]spg.CharRecipe{
	"SFDigits1":            {Length: 1, Allow: spg.Digits},
	"SFDigits2":            {Length: 2, Allow: spg.Digits},
	"SFDigitsNoAmbiguous1": {Length: 1, Allow: spg.Digits, Exclude: spg.Ambiguous},
	"SFDigitsNoAmbiguous2": {Length: 2, Allow: spg.Digits, Exclude: spg.Ambiguous},
	"SFSymbols":            {Length: 1, Allow: spg.Symbols},
	"SFDigitsSymbols":      {Length: 1, Allow: spg.Symbols | spg.Digits},
}

// Build constructs the word list (unless given) and the recipe.
func (w WLSpec) Build(wl *spg.WordList) (spg.WLRecipe, *spg.WordList, error) {
	var err error
	var r *spg.WLRecipe
	switch w.NoList {
	case 1:
		r = &spg.WLRecipe{Length: w.Len}
	case 2:
		wl = new(spg.WordList)
		r = spg.NewWLRecipe(w.Len, wl)
	default:
		if wl == nil {
			wl, err = spg.NewWordList(FromCPsList(w.Words))
			if err != nil {
				return spg.WLRecipe{}, nil, err
			}
		}
		// (the caller may also construct with one length and set another afterwards: the recipe must honour the field)
		switch (w.Len + len(w.Words) + len(w.Cap)) % 3 {
		case 1:
			r = spg.NewWLRecipe(w.Len+3, wl)
			r.Length = w.Len
		case 2:
			r = spg.NewWLRecipe(1, wl)
			r.Length = w.Len
		default:
			r = spg.NewWLRecipe(w.Len, wl)
		}
	}
	r.Capitalize = spg.CapScheme(w.Cap)
	r.SeparatorChar = FromCPs(w.SepChar) // also set next to a separator function, which must then win
	switch w.Sep {
	case "", "char":
	case "recipe":
		r.SeparatorFunc = spg.NewSFFunction(w.SepRecipe.Recipe())
	case "customlist":
		// a caller-written separator function: one of the listed strings (possibly the empty one), uniformly, reporting log2(#values) bits
		vals := FromCPsList(w.SepVals)
		pick := spg.CharRecipe{Length: 1, AllowChars: "abcdefghijklmnop"[:len(vals)]}
		bits := spg.FloatE(math.Log2(float64(len(vals))))
		r.SeparatorFunc = func() (string, spg.FloatE) {
			p, err := pick.Generate()
			if err != nil {
				return "", 0
			}
			return vals[int(p.String()[0]-'a')], bits
		}
	case "customnan", "custominf", "customneg":
		// a caller-written separator function that returns a fixed string and an odd entropy statement (NaN, +Inf, negative)
		val := ""
		if len(w.SepVals) > 0 {
			val = FromCPs(w.SepVals[0])
		}
		ent := map[string]float64{"customnan": math.NaN(), "custominf": math.Inf(1), "customneg": -3.5}[w.Sep]
		r.SeparatorFunc = func() (string, spg.FloatE) { return val, spg.FloatE(ent) }
	case "custom0":
		// a caller-written separator function: a fresh random string from SepRecipe each call, but it claims no entropy
		cr := w.SepRecipe.Recipe()
		r.SeparatorFunc = func() (string, spg.FloatE) {
			p, err := cr.Generate()
			if err != nil {
				return "", 0
			}
			return p.String(), 0
		}
	default:
		p, ok := presets[w.Sep]
		if !ok {
			return *r, wl, fmt.Errorf("unknown separator %q", w.Sep)
		}
		r.SeparatorFunc = *p
	}
	return *r, wl, nil
}

// ---- results ----

type TokJ struct {
	V []int `json:"v"`
	T int   `json:"t"`
}

type GenRes struct {
	Kind  string  `json:"kind"` // ok | err | panic
	Toks  []TokJ  `json:"toks"`
	Str   []int   `json:"str"`
	Ent   Dyadic  `json:"ent"`
	Err   string  `json:"err"`   // error class
	Msg   string  `json:"msg"`   // sanitized text
	AS    int     `json:"as"`    // 1: Atoms and Seps hold what Tokens().Atoms() / Tokens().Separators() returned for this password
	Atoms CPLists `json:"atoms"` // values of the atom tokens, as the library lists them
	Seps  CPLists `json:"seps"`  // values of the separator tokens, as the library lists them
}

// CPLists is a list of texts (code point arrays) that is never written as JSON null.
type CPLists [][]int

func (c CPLists) MarshalJSON() ([]byte, error) {
	if c == nil {
		return []byte("[]"), nil
	}
	return json.Marshal([][]int(c))
}

func TokJs(ts spg.Tokens) []TokJ {
	out := make([]TokJ, len(ts))
	for i, t := range ts {
		out[i] = TokJ{CPs(t.Value()), int(t.Type())}
	}
	return out
}

var errClasses = []struct {
	re  *regexp.Regexp
	cls string
}{
	{regexp.MustCompile(`don't ask for passwords of length`), "length"},
	{regexp.MustCompile(`no characters to build`), "nochars"},
	{regexp.MustCompile(`is too high`), "failrate"},
	{regexp.MustCompile(`couldn't generate password complying`), "exhausted"},
	{regexp.MustCompile(`must be set up before being used`), "nolist"},
	{regexp.MustCompile(`without words`), "emptylist"},
}

func ErrClass(msg string) string {
	for _, c := range errClasses {
		if c.re.MatchString(msg) {
			return c.cls
		}
	}
	return "other"
}

func Sanitize(s string) string {
	var b strings.Builder
	for _, r := range s {
		if r >= 32 && r < 127 && r != '"' && r != '\\' {
			b.WriteRune(r)
		} else {
			b.WriteByte('?')
		}
	}
	out := b.String()
	if len(out) > 160 {
		out = out[:160]
	}
	return out
}

func ResOf(p *spg.Password, err error, pan interface{}) GenRes {
	g := GenRes{Toks: []TokJ{}, Str: []int{}, Ent: DyadicOf(0), Atoms: CPLists{}, Seps: CPLists{}}
	switch {
	case pan != nil:
		g.Kind = "panic"
		g.Msg = Sanitize(fmt.Sprint(pan))
	case err != nil:
		g.Kind = "err"
		g.Msg = Sanitize(err.Error())
		g.Err = ErrClass(err.Error())
		if p != nil {
			g.Kind = "errpw" // error AND a password: never allowed
			g.Toks = TokJs(p.Tokens())
			g.Str = CPs(p.String())
		}
	case p == nil:
		g.Kind = "nil"
	default:
		g.Kind = "ok"
		g.Toks = TokJs(p.Tokens())
		g.Str = CPs(p.String())
		g.Ent = DyadicOf(p.Entropy)
		func() {
			defer func() { recover() }()
			a, sp := CPsList(p.Tokens().Atoms()), CPsList(p.Tokens().Separators())
			g.AS, g.Atoms, g.Seps = 1, a, sp
		}()
	}
	return g
}

// ---- NDJSON emitter ----

type Emitter struct {
	f *os.File
	w *bufio.Writer
	N int
}

func NewEmitter(path string) *Emitter {
	f, err := os.Create(path)
	if err != nil {
		fatal("create %s: %v", path, err)
	}
	return &Emitter{f: f, w: bufio.NewWriterSize(f, 1<<20)}
}

func (e *Emitter) Emit(v interface{}) {
	b, err := json.Marshal(v)
	if err != nil {
		fatal("marshal: %v", err)
	}
	e.w.Write(b)
	e.w.WriteByte('\n')
	e.N++
}

func (e *Emitter) Close() {
	e.w.Flush()
	e.f.Close()
}

func fatal(format string, a ...interface{}) {
	fmt.Fprintf(os.Stderr, "spgdrv: "+format+"\n", a...)
	os.Exit(3)
}

func WordLimbs(w uint32) []int {
	l := LimbsU64(uint64(w))
	for len(l) < 3 {
		l = append(l, 0)
	}
	return l
}
