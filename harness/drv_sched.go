package main

// C14 driver: TLC-generated interleavings replayed deterministically. The
// draw hook is a scheduler gate: every goroutine parks at the start of each
// bounded draw and runs only when the schedule releases it, so the real code
// executes exactly the interleaving (at draw granularity) the specification
// generated. Each call's result must equal the result of the same call made
// alone with the same index choices (Api!ResultIsFunctionOfFields).

import (
	"bufio"
	"bytes"
	"encoding/binary"
	"encoding/json"
	"flag"
	"fmt"
	mrand "math/rand"
	"os"
	"reflect"
	"runtime"
	"strconv"
	"sync"
	"time"

	"go.1password.io/spg"
)

func init() {
	commands["sched"] = cmdSched
}

type SchedScen struct {
	Schedule []int `json:"schedule"` // worker index per step (a step = one bounded draw of that worker)
	Workers  []int `json:"workers"`  // which shared object each worker calls
	Setup    int   `json:"setup"`    // which set of shared objects
}

func goid() int {
	var buf [64]byte
	n := runtime.Stack(buf[:], false)
	f := bytes.Fields(buf[:n])
	id, _ := strconv.Atoi(string(f[1]))
	return id
}

// gatedReader serves the word the scheduler chose for the draw in progress.
type gatedReader struct {
	mu    sync.Mutex
	word  uint32
	have  bool
	stray int
	rng   *mrand.Rand
}

func (g *gatedReader) Read(p []byte) (int, error) {
	g.mu.Lock()
	defer g.mu.Unlock()
	w := g.word
	if !g.have {
		g.stray++
		w = g.rng.Uint32()
	}
	g.have = false
	var b [4]byte
	binary.BigEndian.PutUint32(b[:], w)
	n := copy(p, b[:])
	return n, nil
}

type schedObj struct {
	name string
	gen  func() GenRes
}

func schedSetup(k int) []schedObj {
	words := []string{"one", "two", "three", "kettő", "zebra"}
	wl, _ := spg.NewWordList(words)
	mk := func(L int, cap spg.CapScheme, sf spg.SFFunction, sc string) *spg.WLRecipe {
		r := spg.NewWLRecipe(L, wl)
		r.Capitalize, r.SeparatorFunc, r.SeparatorChar = cap, sf, sc
		return r
	}
	own := spg.NewSFFunction(spg.CharRecipe{Length: 1, AllowChars: "xyz", RequireSets: []string{"yz"}})
	var objs []schedObj
	add := func(name string, r *spg.WLRecipe) {
		objs = append(objs, schedObj{name, func() GenRes { p, err := r.Generate(); return ResOf(p, err, nil) }})
	}
	addc := func(name string, r spg.CharRecipe) {
		shared := r
		objs = append(objs, schedObj{name, func() GenRes { p, err := shared.Generate(); return ResOf(p, err, nil) }})
	}
	switch k % 3 {
	case 0: // one recipe value shared by all workers, schemes with draws before and between the words
		add("wl-one-digits", mk(3, spg.CSOne, spg.SFDigits1, ""))
		add("wl-random-own", mk(2, spg.CSRandom, own, ""))
	case 1: // two recipes sharing the list and the same constructed separator function; a character recipe with retries
		add("wl-all-own", mk(2, spg.CSAll, own, ""))
		add("wl-one-own", mk(3, spg.CSOne, own, ""))
		addc("char-required", spg.CharRecipe{Length: 3, AllowChars: "abc", RequireSets: []string{"c"}})
	default:
		addc("char-digits", spg.CharRecipe{Length: 4, Allow: spg.Digits, Require: spg.Digits})
		add("wl-random-symbols", mk(3, spg.CSRandom, spg.SFSymbols, ""))
		addc("char-classes", spg.CharRecipe{Length: 3, Allow: spg.Lowers | spg.Digits, Require: spg.Digits})
	}
	return objs
}

func cmdSched(args []string) {
	fs := flag.NewFlagSet("sched", flag.ExitOnError)
	seed := fs.Int64("seed", 1, "")
	scen := fs.String("scen", "", "")
	out := fs.String("out", "sched.ndjson", "")
	shard := fs.Int("shard", 0, "")
	shards := fs.Int("shards", 1, "")
	fs.Parse(args)
	f, err := os.Open(*scen)
	if err != nil {
		fatal("%v", err)
	}
	defer f.Close()
	em := NewEmitter(*out)
	sc := bufio.NewScanner(f)
	sc.Buffer(make([]byte, 1<<20), 1<<24)
	restore := setEnv(3, 1)
	defer restore()
	i := -1
	for sc.Scan() {
		i++
		if i%*shards != *shard || len(sc.Bytes()) == 0 {
			continue
		}
		var s SchedScen
		if err := json.Unmarshal(sc.Bytes(), &s); err != nil {
			fatal("%v", err)
		}
		runSched(em, i, s, *seed)
	}
	em.Close()
	fmt.Printf("{\"events\":%d}\n", em.N)
}

func runSched(em *Emitter, id int, s SchedScen, seed int64) {
	objs := schedSetup(s.Setup)
	nw := len(s.Workers)
	e := NewEnum(seed*131 + int64(id))
	e.RejectProb = 0
	// each worker's choices: index for its k-th draw = a seeded function of (worker, k, bound)
	choice := func(w, k int, n uint32) uint32 {
		r := mrand.New(mrand.NewSource(seed*7907 + int64(id)*31 + int64(w)*1009 + int64(k)))
		return uint32(r.Int63n(int64(n)))
	}
	// expected: each call alone, sequentially, with the same choices
	expected := make([]GenRes, nw)
	expDraws := make([]int, nw)
	for w := 0; w < nw; w++ {
		ww := w
		e.Policy = func(k int, n uint32) uint32 { return choice(ww, k, n) }
		var res GenRes
		o := e.Run(nil, func() { res = objs[s.Workers[ww]%len(objs)].gen() })
		if o.Panic != nil {
			res = ResOf(nil, nil, o.Panic)
		}
		expected[w], expDraws[w] = res, len(o.Draws)
	}
	e.Policy = nil
	// the interleaved run
	type wstate struct {
		park chan uint32 // worker -> scheduler: parked at a draw with this bound
		go_  chan struct{}
		done chan GenRes
		k    int
		fin  bool
		res  GenRes
	}
	ws := make([]*wstate, nw)
	gidOf := sync.Map{}
	rd := &gatedReader{rng: mrand.New(mrand.NewSource(seed + 5))}
	old := randReaderSwap(rd)
	spg.VerifSetDrawHook(func(n uint32) {
		if e.inCalib {
			return
		}
		v, ok := gidOf.Load(goid())
		if !ok {
			return
		}
		st := ws[v.(int)]
		st.park <- n
		<-st.go_
	})
	for w := 0; w < nw; w++ {
		ws[w] = &wstate{park: make(chan uint32), go_: make(chan struct{}), done: make(chan GenRes, 1)}
	}
	for w := 0; w < nw; w++ {
		w := w
		go func() {
			gidOf.Store(goid(), w)
			var res GenRes
			func() {
				defer func() {
					if r := recover(); r != nil {
						res = ResOf(nil, nil, r)
					}
				}()
				res = objs[s.Workers[w]%len(objs)].gen()
			}()
			ws[w].done <- res
		}()
	}
	// advance worker w by one segment: it is parked at a draw (or will park); give it its word, release it, wait until it parks again or ends
	parked := make([]bool, nw)
	bound := make([]uint32, nw)
	await := func(w int) { // wait until w is parked or finished
		if parked[w] || ws[w].fin {
			return
		}
		select {
		case n := <-ws[w].park:
			parked[w], bound[w] = true, n
		case r := <-ws[w].done:
			ws[w].fin, ws[w].res = true, r
		case <-time.After(20 * time.Second):
			ws[w].fin, ws[w].res = true, GenRes{Kind: "stuck", Toks: []TokJ{}, Str: []int{}, Ent: DyadicOf(0)}
		}
	}
	for w := 0; w < nw; w++ {
		await(w)
	}
	step := func(w int) {
		if ws[w].fin {
			return
		}
		await(w)
		if ws[w].fin {
			return
		}
		n := bound[w]
		idx := choice(w, ws[w].k, n)
		ws[w].k++
		word, _ := e.Rep(n, idx) // calibrates with the hook switched to no-op; all workers are parked
		rd.mu.Lock()
		rd.word, rd.have = word, true
		rd.mu.Unlock()
		parked[w] = false
		ws[w].go_ <- struct{}{}
		await(w)
	}
	for _, w := range s.Schedule {
		if w >= 0 && w < nw {
			step(w)
		}
	}
	for alive := true; alive; { // drain: round robin
		alive = false
		for w := 0; w < nw; w++ {
			if !ws[w].fin {
				alive = true
				step(w)
			}
		}
	}
	spg.VerifSetDrawHook(nil)
	randReaderSwap(old)
	type wout struct {
		Obj      string `json:"obj"`
		Draws    int    `json:"draws"`
		ExpDraws int    `json:"expDraws"`
		Same     int    `json:"same"`
		Got      GenRes `json:"got"`
		Expected GenRes `json:"expected"`
	}
	outs := []wout{}
	for w := 0; w < nw; w++ {
		o := wout{Obj: objs[s.Workers[w]%len(objs)].name, Draws: ws[w].k, ExpDraws: expDraws[w], Got: ws[w].res, Expected: expected[w]}
		if reflect.DeepEqual(ws[w].res, expected[w]) {
			o.Same = 1
		}
		outs = append(outs, o)
	}
	em.Emit(map[string]interface{}{"op": "sched", "id": id, "setup": s.Setup % 3, "schedule": s.Schedule, "workers": outs, "stray": rd.stray})
}
