package main

// C16 driver: built-in classes, constructor defaults, globals, separator
// presets (complete choice tree of every preset function) and the shipped
// lists next to their source data files.

import (
	"bufio"
	"flag"
	"fmt"
	"math/big"
	"os"
	"path/filepath"
	"sort"
	"strings"

	"go.1password.io/spg"
)

func init() {
	commands["builtins"] = cmdBuiltins
}

func readLines(path string) ([]string, error) {
	f, err := os.Open(path)
	if err != nil {
		return nil, err
	}
	defer f.Close()
	var out []string
	sc := bufio.NewScanner(f)
	sc.Buffer(make([]byte, 1<<20), 1<<24)
	for sc.Scan() {
		out = append(out, sc.Text())
	}
	return out, sc.Err()
}

func cmdBuiltins(args []string) {
	fs := flag.NewFlagSet("builtins", flag.ExitOnError)
	out := fs.String("out", "builtin.ndjson", "")
	repo := fs.String("repo", "/repo", "")
	seed := fs.Int64("seed", 1, "")
	polluteFirst := fs.Bool("pollute-first", false, "use many other recipes in this process BEFORE the built-ins are read for the first time")
	fs.Parse(args)
	em := NewEmitter(*out)
	// many other recipes used in this process: a process-wide memo keyed too coarsely then answers for the wrong recipe -
	// the one that comes SECOND.  So the built-ins are read (a) fresh, (b) again after the others, and, in a separate
	// process (-pollute-first), (c) for the first time after the others.
	pollute := func() {
		for a := 0; a < 32; a++ {
			for rq := 0; rq < 32; rq++ {
				for _, x := range []int{0, 16, 4, 31} {
					// never the built-in recipes themselves (default, presets, single-class alphabets): in the -pollute-first
					// process they must come SECOND to whatever might collide with them
					if rq == 0 && (x == 0 || (x == 16 && (a == 15 || a == 4))) {
						continue
					}
					r := spg.CharRecipe{Length: 3, Allow: spg.CTFlag(a), Require: spg.CTFlag(rq), Exclude: spg.CTFlag(x)}
					_ = r.Alphabet()
					if a%8 == 7 && rq%4 == 1 {
						_ = r.Entropy()
						r.Generate()
					}
				}
			}
		}
		// recipes that add custom characters to ONE class in each role (excluded, allowed, required): nothing they do may stick to the class
		for _, f := range []spg.CTFlag{spg.Uppers, spg.Lowers, spg.Digits, spg.Symbols, spg.Ambiguous} {
			for _, rr := range []spg.CharRecipe{
				{Length: 4, Allow: spg.All, Exclude: f, ExcludeChars: "aZ3!5S-q"},
				{Length: 4, Allow: f, AllowChars: "aZ3!5S-qé"},
				{Length: 4, Allow: spg.All, Require: f, RequireSets: []string{"aZ3!5S-q"}},
				{Length: 4, Allow: spg.Letters, Exclude: f, ExcludeChars: "xyzXYZ", RequireSets: []string{"09"}},
			} {
				_ = rr.Alphabet()
				_ = rr.Entropy()
				_ = rr.SuccessProbability()
				rr.Generate()
			}
		}
		for _, rr := range []spg.CharRecipe{{Length: 1, Allow: spg.Digits, Require: spg.Uppers}, {Length: 2, Allow: spg.Digits, Require: spg.Uppers},
			{Length: 1, Allow: spg.Symbols | spg.Digits, Require: spg.Lowers}, {Length: 20, Allow: spg.All, Require: spg.Uppers}} {
			_ = rr.Alphabet()
			_ = rr.Entropy()
			rr.Generate()
		}
	}
	if *polluteFirst {
		pollute()
		emitBuiltins(em, *repo, *seed, 1)
	} else {
		emitBuiltins(em, *repo, *seed, 0)
		pollute()
		emitBuiltins(em, *repo, *seed, 1)
	}
	em.Close()
	fmt.Printf("{\"events\":%d}\n", em.N)
}

func emitBuiltins(em *Emitter, repoDir string, seedv int64, pass int) {
	repo, seed := &repoDir, &seedv
	em.Emit(map[string]interface{}{"op": "consts", "Uppers": int(spg.Uppers), "Lowers": int(spg.Lowers), "Digits": int(spg.Digits), "Symbols": int(spg.Symbols),
		"Ambiguous": int(spg.Ambiguous), "None": int(spg.None), "Letters": int(spg.Letters), "All": int(spg.All),
		"SeparatorType": int(spg.SeparatorType), "AtomType": int(spg.AtomType),
		"CSNone": string(spg.CSNone), "CSFirst": string(spg.CSFirst), "CSAll": string(spg.CSAll), "CSRandom": string(spg.CSRandom), "CSOne": string(spg.CSOne)})
	for f := 0; f < 32; f++ {
		r := spg.CharRecipe{Length: 1, Allow: spg.CTFlag(f)}
		em.Emit(map[string]interface{}{"op": "class", "flag": f, "alpha": CPs(r.Alphabet())})
	}
	for _, k := range []int{0, 1, 20, -3} {
		r := spg.NewCharRecipe(k)
		em.Emit(map[string]interface{}{"op": "newchar", "k": k, "fields": CharSpecOf(*r), "alpha": CPs(r.Alphabet())})
	}
	// the default recipe with each combination of classes REQUIRED (requirements never widen or narrow "everything minus ambiguous"),
	// and everything allowed with each combination of classes EXCLUDED
	for f := 0; f < 32; f++ {
		r := spg.NewCharRecipe(20)
		r.Require = spg.CTFlag(f)
		pws := [][]int{}
		for kind := 0; kind < 3; kind++ {
			e := NewEnum(*seed + int64(f))
			e.Policy = func(j int, n uint32) uint32 {
				switch kind {
				case 0:
					return uint32(e.Rng.Int63n(int64(n)))
				case 1:
					return uint32((j * 7) % int(n))
				}
				return n - 1 - uint32((j*5)%int(n))
			}
			e.Run(nil, func() {
				if p, err := r.Generate(); err == nil && p != nil {
					pws = append(pws, CPs(p.String()))
				}
			})
		}
		em.Emit(map[string]interface{}{"op": "newcharreq", "k": 20, "require": f, "fields": CharSpecOf(*r), "alpha": CPs(r.Alphabet()), "pws": pws})
		x := spg.CharRecipe{Length: 1, Allow: spg.All, Exclude: spg.CTFlag(f)}
		em.Emit(map[string]interface{}{"op": "classex", "flag": f, "alpha": CPs(x.Alphabet())})
	}
	wl, _ := spg.NewWordList([]string{"one", "two", "three"})
	for _, k := range []int{0, 1, 4} {
		r := spg.NewWLRecipe(k, wl)
		em.Emit(map[string]interface{}{"op": "newwl", "k": k, "len": r.Length, "cap": string(r.Capitalize), "sepChar": CPs(r.SeparatorChar),
			"sepFuncNil": b2i(r.SeparatorFunc == nil), "size": int(r.Size())})
	}
	em.Emit(map[string]interface{}{"op": "globals", "maxTrials": spg.MaxTrials, "maxFailRate": Dyadic64Of(spg.MaxFailRate)})
	// the default retry budget, observed: a recipe whose first attempts all miss the requirement
	{
		r := spg.CharRecipe{Length: 2, AllowChars: "ab", RequireSets: []string{"b"}}
		for _, okAt := range []int{0, 200, 199, 201} { // 0: every attempt fails; k: attempt k is the first that satisfies the requirement
			e := NewEnum(*seed)
			e.RejectProb = 0
			e.Policy = func(j int, n uint32) uint32 {
				if okAt > 0 && j/2 == okAt-1 {
					return n - 1
				}
				return 0
			}
			var res GenRes
			o := e.Run(nil, func() { p, err := r.Generate(); res = ResOf(p, err, nil) })
			if o.Panic != nil {
				res = ResOf(nil, nil, o.Panic)
			}
			em.Emit(map[string]interface{}{"op": "budget", "okAt": okAt, "draws": len(o.Draws), "len": 2, "kind": res.Kind, "err": res.Err})
		}
	}
	// the tolerated failure probability, observed: recipes whose requirements are given by class flags only
	for _, tc := range []struct{ L, allow, require int }{{4, 15, 15}, {3, 15, 15}, {2, 15, 12}, {6, 15, 15}, {8, 15, 15}, {12, 15, 15}, {1, 4, 4}, {3, 3, 3}} {
		cs := CharSpec{Len: tc.L, Allow: tc.allow, Require: tc.require}
		cs.norm()
		r := cs.Recipe()
		e := NewEnum(*seed)
		e.Policy = func(j int, n uint32) uint32 { return uint32(e.Rng.Int63n(int64(n))) }
		var res GenRes
		o := e.Run(nil, func() { p, err := r.Generate(); res = ResOf(p, err, nil) })
		if o.Panic != nil {
			res = ResOf(nil, nil, o.Panic)
		}
		em.Emit(map[string]interface{}{"op": "tolerance", "char": cs, "kind": res.Kind, "err": res.Err, "draws": len(o.Draws)})
	}
	// ... and a ladder of one-character recipes "k required characters out of N" around the exact threshold 0.0984468
	for _, kn := range [][2]int{{5, 51}, {10, 102}, {15, 153}, {96, 976}, {49, 499}, {98, 995}, {99, 1005}, {10, 101}, {1, 10}, {9, 100}, {1, 11}, {2, 21}} {
		k, N := kn[0], kn[1]
		var req, rest []int
		for i := 0; i < N; i++ {
			if i < k {
				req = append(req, 0x4E00+i)
			} else {
				rest = append(rest, 0x4E00+i)
			}
		}
		cs := CharSpec{Len: 1, AllowChars: rest, RequireSets: [][]int{req}}
		cs.norm()
		r := cs.Recipe()
		e := NewEnum(*seed)
		e.Policy = func(j int, n uint32) uint32 { return uint32(e.Rng.Int63n(int64(n))) }
		var res GenRes
		o := e.Run(nil, func() { p, err := r.Generate(); res = ResOf(p, err, nil) })
		if o.Panic != nil {
			res = ResOf(nil, nil, o.Panic)
		}
		em.Emit(map[string]interface{}{"op": "tolerance", "char": cs, "kind": res.Kind, "err": res.Err, "draws": len(o.Draws)})
	}
	// separator presets: the complete choice tree of each function
	names := []string{"SFNone", "SFDigits1", "SFDigits2", "SFDigitsNoAmbiguous1", "SFDigitsNoAmbiguous2", "SFSymbols", "SFDigitsSymbols"}
	for _, name := range names {
		fn := *presets[name]
		e := NewEnum(*seed)
		type agg struct {
			w    *big.Int
			ents map[string]Dyadic
		}
		vals := map[string]*agg{}
		var order []string
		var s string
		var ent spg.FloatE
		type lf struct {
			v    string
			ent  Dyadic
			prod *big.Int
		}
		var leaves []lf
		misaligned := false
		complete, _ := e.Tree(5000, func() { s, ent = fn() }, func(plan []uint32, o RunOut) bool {
			if o.Prefetch || o.Unannounced > 0 || o.Unstable || o.NoRep {
				misaligned = true // the reads cannot be attributed to the draws: no exact distribution from this tree
			}
			prod := big.NewInt(1)
			for _, d := range o.Draws {
				prod.Mul(prod, big.NewInt(int64(d.N)))
			}
			leaves = append(leaves, lf{s, DyadicOf(float32(ent)), prod})
			return true
		})
		den := big.NewInt(1)
		for _, l := range leaves {
			g := new(big.Int).GCD(nil, nil, den, l.prod)
			den.Mul(den, new(big.Int).Quo(l.prod, g))
		}
		for _, l := range leaves {
			a := vals[l.v]
			if a == nil {
				a = &agg{w: big.NewInt(0), ents: map[string]Dyadic{}}
				vals[l.v] = a
				order = append(order, l.v)
			}
			a.w.Add(a.w, new(big.Int).Quo(den, l.prod))
			a.ents[fmt.Sprint(l.ent)] = l.ent
		}
		sort.Strings(order)
		vs := []map[string]interface{}{}
		for _, v := range order {
			es := []Dyadic{}
			for _, d := range vals[v].ents {
				es = append(es, d)
			}
			vs = append(vs, map[string]interface{}{"v": CPs(v), "w": int(vals[v].w.Int64()), "ents": es})
		}
		em.Emit(map[string]interface{}{"op": "preset", "name": name, "den": int(den.Int64()), "complete": b2i(complete), "leaves": len(leaves), "vals": vs,
			"misaligned": b2i(misaligned)})
	}
	// shipped lists against their data files, in chunks (first pass only)
	if pass > 0 {
		return
	}
	// the shipped lists are used first (as opgen does): they must still be identical to their data files afterwards
	for li, ws := range [][]string{spg.AgileWords, spg.AgileSyllables} {
		if wl, err := spg.NewWordList(ws); err == nil {
			r := spg.NewWLRecipe(3, wl)
			r.Capitalize = spg.CSOne
			r.Generate()
			// ... and after capitalising recipes have drawn from a shipped list many times, the constructor's recipe on the SAME list
			// still means "no capitalisation, no separator": every atom is an entry of the list as shipped
			for _, cs := range []spg.CapScheme{spg.CSAll, spg.CSRandom, spg.CSFirst} {
				rc := spg.NewWLRecipe(4, wl)
				rc.Capitalize = cs
				for k := 0; k < 120; k++ {
					rc.Generate()
				}
			}
			entry := map[string]bool{}
			for _, w := range ws {
				entry[w] = true
			}
			def := spg.NewWLRecipe(3, wl)
			foreign, seps, atoms := 0, 0, 0
			example := ""
			for k := 0; k < 400; k++ {
				p, err := def.Generate()
				if err != nil || p == nil {
					foreign++
					continue
				}
				seps += len(p.Tokens().Separators())
				for _, a := range p.Tokens().Atoms() {
					atoms++
					if !entry[a] {
						foreign++
						example = a
					}
				}
			}
			em.Emit(map[string]interface{}{"op": "newwlafter", "list": li, "atoms": atoms, "foreign": foreign, "seps": seps, "example": CPs(example),
				"cap": string(def.Capitalize), "sepChar": CPs(def.SeparatorChar), "sepFuncNil": b2i(def.SeparatorFunc == nil)})
		}
	}
	for _, l := range []struct {
		name string
		emb  []string
		file string
	}{{"AgileWords", spg.AgileWords, "agwordlist.txt"}, {"AgileSyllables", spg.AgileSyllables, "agsyllables.txt"}} {
		lines, err := readLines(filepath.Join(*repo, "testdata", l.file))
		if err != nil {
			fatal("%v", err)
		}
		n := len(l.emb)
		if len(lines) > n {
			n = len(lines)
		}
		const chunk = 400
		for k := 0; k*chunk < n; k++ {
			lo, hi := k*chunk, (k+1)*chunk
			sub := func(x []string) []string {
				if lo >= len(x) {
					return []string{}
				}
				h := hi
				if h > len(x) {
					h = len(x)
				}
				return x[lo:h]
			}
			e := sub(l.emb)
			low := make([]string, len(e))
			for i, w := range e {
				low[i] = strings.ToLower(w)
			}
			em.Emit(map[string]interface{}{"op": "chunk", "name": l.name, "k": k, "emb": CPsList(e), "file": CPsList(sub(lines)), "lower": CPsList(low)})
		}
		em.Emit(map[string]interface{}{"op": "listend", "name": l.name, "n": len(l.emb), "fileLines": len(lines)})
	}
}
