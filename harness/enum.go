package main

// Choice-tree enumerator: learns the bound of every bounded draw from the
// verif hook, and drives the real code down every path of index choices by
// scripting crypto/rand.Reader with raw words that the *real* sampler maps to
// the chosen index (representatives are found by calling the real draw, not
// by formula).

import (
	"fmt"
	mrand "math/rand"
	"time"

	"go.1password.io/spg"
)

type Draw struct {
	N   uint32   `json:"n"`
	I   uint32   `json:"i"`
	Raw []uint32 `json:"-"`
	Rej int      `json:"rej"` // rejected words pushed before the accepted one
}

type Calib struct {
	n     uint32
	acc   map[uint32][]uint32
	rej   []uint32
	norej bool
}

type Enum struct {
	Rng          *mrand.Rand
	RejectProb   float64 // probability of preceding a draw by rejected words
	MaxRej       int
	Chunk        []int // chunk plan for tapes
	calib        map[uint32]*Calib
	inCalib      bool
	Unreachable  []string
	Policy       func(k int, n uint32) uint32 // index for draws beyond the plan (nil: 0)
	OpaqueWords  []uint32                     // words served to the first reads that no draw announced
	OpaqueSeeded *mrand.Rand                  // source of further unannounced words (kept separate so that probes differ in one word only)
	FailAtRead   int                          // >0: the random source fails at this Read call (after FailGot bytes)
	FailGot      int
	MaxDraws     int     // >0: abandon a run after this many draws
	MaxProd      float64 // >0: abandon a run once the product of its bounds exceeds this (its mass is below 1/MaxProd)
}

func NewEnum(seed int64) *Enum {
	return &Enum{Rng: mrand.New(mrand.NewSource(seed)), RejectProb: 0.25, MaxRej: 2, calib: map[uint32]*Calib{}}
}

// TryDraw calls the real bounded draw on a fresh tape holding words and
// reports result, words consumed and whether it panicked / ran out of tape.
func (e *Enum) TryDraw(n uint32, words []uint32) (res uint32, used int, ok bool) {
	saved := e.inCalib
	e.inCalib = true
	defer func() { e.inCalib = saved }()
	t := &Tape{}
	for _, w := range words {
		t.Push(w)
	}
	old := randReaderSwap(t)
	defer randReaderSwap(old)
	defer func() {
		if r := recover(); r != nil {
			ok = false
			used = t.Bytes / 4
		}
	}()
	res = spg.VerifRandomUint32n(n)
	return res, t.Bytes / 4, true
}

func (e *Enum) cal(n uint32) *Calib {
	c := e.calib[n]
	if c == nil {
		c = &Calib{n: n, acc: map[uint32][]uint32{}}
		e.calib[n] = c
	}
	return c
}

// Rep returns a raw word that the real draw maps to index i under bound n
// (accepted at once), or false if none was found.
func (e *Enum) Rep(n, i uint32) (uint32, bool) {
	c := e.cal(n)
	if reps := c.acc[i]; len(reps) >= 3 || (len(reps) > 0 && e.Rng.Intn(2) == 0) {
		return reps[e.Rng.Intn(len(reps))], true
	}
	// formula guess first: i + k*n for a seeded k, then i itself
	maxk := (uint64(1<<32) - 1 - uint64(i)) / uint64(n)
	for try := 0; try < 6; try++ {
		k := uint64(0)
		if try < 5 && maxk > 0 {
			k = uint64(e.Rng.Int63n(int64(maxk + 1)))
		}
		w := uint32(uint64(i) + k*uint64(n))
		if r, used, ok := e.TryDraw(n, []uint32{w}); ok && used == 1 && r == i {
			c.acc[i] = append(c.acc[i], w)
			return w, true
		}
	}
	// representation-independent search
	budget := 64*int(minU32(n, 1<<16)) + 4096
	for try := 0; try < budget; try++ {
		w := e.Rng.Uint32()
		r, used, ok := e.TryDraw(n, []uint32{w})
		if ok && used == 1 {
			if len(c.acc[r]) < 3 {
				c.acc[r] = append(c.acc[r], w)
			}
			if r == i {
				return w, true
			}
		}
	}
	if reps := c.acc[i]; len(reps) > 0 {
		return reps[0], true
	}
	e.Unreachable = append(e.Unreachable, fmt.Sprintf("n=%d i=%d", n, i))
	return 0, false
}

// RejWord returns a raw word the real draw rejects under bound n, if any.
func (e *Enum) RejWord(n uint32) (uint32, bool) {
	c := e.cal(n)
	if c.norej {
		return 0, false
	}
	if len(c.rej) >= 3 {
		return c.rej[e.Rng.Intn(len(c.rej))], true
	}
	for _, w := range []uint32{0xFFFFFFFF, 0xFFFFFFFE, 0xFFFFFFFF - uint32(e.Rng.Intn(3)), 0xFFFFFFF0, 0x80000000, 0, 1, 2, n, n + 1, ^uint32(0) >> 1} {
		// a rejected word makes the draw consume a second word
		_, used, ok := e.TryDraw(n, []uint32{w, 0})
		if ok && used == 2 {
			c.rej = append(c.rej, w)
		}
	}
	if len(c.rej) == 0 {
		c.norej = true
		return 0, false
	}
	return c.rej[e.Rng.Intn(len(c.rej))], true
}

func minU32(a, b uint32) uint32 {
	if a < b {
		return a
	}
	return b
}

type cutSignal struct{}

const cellDeadline = 300 * time.Second // (a 17-required-set recipe takes about 30 s on an idle machine; checks run several at once)

// withDeadline runs f and reports whether it finished in time (f keeps running otherwise; the caller exits the process).
func withDeadline(f func(), d time.Duration) bool {
	done := make(chan struct{})
	go func() { f(); close(done) }()
	select {
	case <-done:
		return true
	case <-time.After(d):
		return false
	}
}

type RunOut struct {
	Cut         bool // abandoned: the run went deeper than MaxProd allows (e.g. an unbounded redraw loop)
	Draws       []Draw
	Tape        *Tape
	Panic       interface{}
	Unstable    bool // plan index out of range for the bound announced
	NoRep       bool
	Unannounced int
	Prefetch    bool // some Read asked for more than one word: reads cannot be attributed to draws
	CfgTouched  bool // the process-wide limits (MaxTrials, MaxFailRate) differed from the configured ones at a draw or after the call (Process!LimitsAreTheCallers)
}

// Run executes body once along plan (indices for the first draws; further
// draws take index 0).
func (e *Enum) Run(plan []uint32, body func()) (out RunOut) {
	t := &Tape{Chunk: e.Chunk, FailAt: e.FailAtRead, FailGot: e.FailGot}
	t.Supply = func() (uint32, bool) {
		// a read that no draw announced: serve the scripted opaque word if any, else a seeded word; remember it
		t.Unannounced++
		if t.Unannounced <= len(e.OpaqueWords) {
			return e.OpaqueWords[t.Unannounced-1], true
		}
		if e.OpaqueSeeded != nil {
			return e.OpaqueSeeded.Uint32(), true
		}
		return e.Rng.Uint32(), true
	}
	k := 0
	prod := 1.0
	cfgMT, cfgFR := spg.MaxTrials, spg.MaxFailRate
	spg.VerifSetDrawHook(func(n uint32) {
		if spg.MaxTrials != cfgMT || spg.MaxFailRate != cfgFR {
			out.CfgTouched = true
		}
		if e.inCalib {
			return
		}
		prod *= float64(n)
		if (e.MaxProd > 0 && prod > e.MaxProd) || (e.MaxDraws > 0 && k >= e.MaxDraws) {
			panic(cutSignal{})
		}
		var idx uint32
		if k < len(plan) {
			idx = plan[k]
		} else if e.Policy != nil {
			idx = e.Policy(k, n)
		}
		k++
		if idx >= n {
			out.Unstable = true
			idx = 0
		}
		d := Draw{N: n, I: idx}
		if e.RejectProb > 0 && e.Rng.Float64() < e.RejectProb {
			nr := 1 + e.Rng.Intn(e.MaxRej)
			for j := 0; j < nr; j++ {
				if w, ok := e.RejWord(n); ok {
					t.Push(w)
					d.Raw = append(d.Raw, w)
					d.Rej++
				}
			}
		}
		w, ok := e.Rep(n, idx)
		if !ok {
			out.NoRep = true
		}
		t.Push(w)
		d.Raw = append(d.Raw, w)
		out.Draws = append(out.Draws, d)
	})
	old := randReaderSwap(t)
	func() {
		defer func() {
			if r := recover(); r != nil {
				if _, ok := r.(cutSignal); ok {
					out.Cut = true
				} else {
					out.Panic = r
				}
			}
		}()
		body()
	}()
	randReaderSwap(old)
	spg.VerifSetDrawHook(nil)
	if spg.MaxTrials != cfgMT || spg.MaxFailRate != cfgFR {
		out.CfgTouched = true
		spg.MaxTrials, spg.MaxFailRate = cfgMT, cfgFR // what the caller configured, for the runs that follow
	}
	out.Tape = t
	out.Unannounced = t.Unannounced
	out.Prefetch = t.MaxReq > 4
	return out
}

// Tree walks the complete tree of index choices of body (depth first). visit
// is called once per leaf with the plan that reproduces it. Returns false if
// cut at maxLeaves.
func (e *Enum) Tree(maxLeaves int, body func(), visit func(plan []uint32, out RunOut) bool) (complete bool, leaves int) {
	plan := []uint32{}
	for {
		out := e.Run(plan, body)
		leaves++
		full := make([]uint32, len(out.Draws))
		for i, d := range out.Draws {
			full[i] = d.I
		}
		if !visit(full, out) {
			return false, leaves
		}
		ch := out.Draws
		k := len(ch) - 1
		for k >= 0 && ch[k].I+1 >= ch[k].N {
			k--
		}
		if k < 0 {
			return true, leaves
		}
		plan = append(append([]uint32{}, full[:k]...), ch[k].I+1)
		if leaves >= maxLeaves {
			return false, leaves
		}
	}
}
