package main

// Projections from Go values to the integer/ASCII-only JSON that TLC's Json
// module reads reliably: text as code-point arrays, big integers as base-2^15
// limb arrays (little endian), float32 as exact dyadic rationals.

import (
	"math"
	"math/big"
	"unicode/utf8"
)

const invalidBase = 1114112 // code for an invalid UTF-8 byte b is invalidBase+b

// CPs projects a Go string to code points; each invalid byte becomes invalidBase+b.
func CPs(s string) []int {
	out := make([]int, 0, len(s))
	for len(s) > 0 {
		r, size := utf8.DecodeRuneInString(s)
		if r == utf8.RuneError && size <= 1 {
			out = append(out, invalidBase+int(s[0]))
			s = s[1:]
			continue
		}
		out = append(out, int(r))
		s = s[size:]
	}
	return out
}

// FromCPs is the inverse of CPs.
func FromCPs(cps []int) string {
	b := make([]byte, 0, len(cps))
	for _, c := range cps {
		if c >= invalidBase {
			b = append(b, byte(c-invalidBase))
		} else {
			var buf [4]byte
			n := utf8.EncodeRune(buf[:], rune(c))
			b = append(b, buf[:n]...)
		}
	}
	return string(b)
}

func CPsList(ss []string) [][]int {
	out := make([][]int, len(ss))
	for i, s := range ss {
		out[i] = CPs(s)
	}
	return out
}

func FromCPsList(l [][]int) []string {
	out := make([]string, len(l))
	for i, c := range l {
		out[i] = FromCPs(c)
	}
	return out
}

const limbBits = 15

// Limbs returns |x| in base 2^15, little endian; zero is the empty array.
func Limbs(x *big.Int) []int {
	out := []int{}
	t := new(big.Int).Abs(x)
	mask := big.NewInt((1 << limbBits) - 1)
	for t.Sign() > 0 {
		l := new(big.Int).And(t, mask)
		out = append(out, int(l.Int64()))
		t.Rsh(t, limbBits)
	}
	return out
}

func LimbsU64(x uint64) []int { return Limbs(new(big.Int).SetUint64(x)) }

// Dyadic is an exact float: value = (-1)^neg * m * 2^e for kind "fin".
type Dyadic struct {
	K   string `json:"k"` // fin | inf | ninf | nan
	Neg int    `json:"neg"`
	M   int    `json:"m"` // < 2^24
	E   int    `json:"e"`
	B   int    `json:"bits"` // raw IEEE bits >> 1 (fits 31 bits), for identity checks
	B0  int    `json:"bit0"`
}

func DyadicOf(f float32) Dyadic {
	bits := math.Float32bits(f)
	d := Dyadic{K: "fin", B: int(bits >> 1), B0: int(bits & 1)}
	switch {
	case f != f:
		d.K = "nan"
		return d
	case math.IsInf(float64(f), 1):
		d.K = "inf"
		return d
	case math.IsInf(float64(f), -1):
		d.K = "ninf"
		return d
	}
	if f < 0 {
		d.Neg = 1
		f = -f
	}
	if f == 0 {
		return d
	}
	fr, ex := math.Frexp(float64(f)) // f = fr * 2^ex, fr in [0.5,1)
	m := int(fr * (1 << 24))         // exact: float32 has 24 significant bits
	e := ex - 24
	for m != 0 && m%2 == 0 {
		m /= 2
		e++
	}
	d.M, d.E = m, e
	return d
}

// Dyadic64 gives a float64 as big mantissa limbs (53 bits) and exponent.
type Dyadic64 struct {
	K   string `json:"k"`
	Neg int    `json:"neg"`
	M   []int  `json:"m"`
	E   int    `json:"e"`
}

func Dyadic64Of(f float64) Dyadic64 {
	d := Dyadic64{K: "fin", M: []int{}}
	switch {
	case f != f:
		d.K = "nan"
		return d
	case math.IsInf(f, 1):
		d.K = "inf"
		return d
	case math.IsInf(f, -1):
		d.K = "ninf"
		return d
	}
	if f < 0 {
		d.Neg = 1
		f = -f
	}
	if f == 0 {
		return d
	}
	fr, ex := math.Frexp(f)
	m := uint64(fr * (1 << 53))
	e := ex - 53
	for m != 0 && m%2 == 0 {
		m /= 2
		e++
	}
	d.M, d.E = LimbsU64(m), e
	return d
}
