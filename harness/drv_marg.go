package main

// marg: sampled marginals of the real generators under a seeded pseudo-random byte stream (no draw hook, no scripted
// words): which symbol was chosen at every position, counted over N passwords. Decided by MargTrace.tla.

import (
	"bufio"
	"encoding/binary"
	"encoding/json"
	"flag"
	"fmt"
	mrand "math/rand"
	"os"
	"sort"
	"strings"

	"go.1password.io/spg"
)

func init() {
	commands["marg"] = cmdMarg
}

// prngReader delivers seeded pseudo-random bytes, whatever sizes are asked for.
type prngReader struct{ r *mrand.Rand }

func (p *prngReader) Read(b []byte) (int, error) {
	i := 0
	for ; i+8 <= len(b); i += 8 {
		binary.BigEndian.PutUint64(b[i:], p.r.Uint64())
	}
	for ; i < len(b); i++ {
		b[i] = byte(p.r.Intn(256))
	}
	return len(b), nil
}

func cmdMarg(args []string) {
	fs := flag.NewFlagSet("marg", flag.ExitOnError)
	seed := fs.Int64("seed", 1, "")
	scen := fs.String("scen", "", "")
	out := fs.String("out", "marg.ndjson", "")
	N := fs.Int("n", 20000, "samples per scenario")
	shard := fs.Int("shard", 0, "")
	shards := fs.Int("shards", 1, "")
	fs.Parse(args)
	f, err := os.Open(*scen)
	if err != nil {
		fatal("%v", err)
	}
	defer f.Close()
	em := NewEmitter(*out)
	sc := bufio.NewScanner(f)
	sc.Buffer(make([]byte, 1<<20), 1<<26)
	i := -1
	for sc.Scan() {
		i++
		if i%*shards != *shard || len(sc.Bytes()) == 0 {
			continue
		}
		var s Scenario
		if err := json.Unmarshal(sc.Bytes(), &s); err != nil {
			fatal("scenario: %v", err)
		}
		em.Emit(margOne(i, s, *seed, *N))
	}
	em.Close()
	fmt.Printf("{\"events\":%d}\n", em.N)
}

func margOne(id int, s Scenario, seed int64, N int) interface{} {
	skip := func(why string) interface{} { return map[string]interface{}{"op": "skip", "id": id, "why": why} }
	restore := setEnv(s.MaxTrials, s.FailRateOne)
	defer restore()
	var gen func() (*spg.Password, error)
	var symbols map[string]int // token value -> symbol index
	capOf := map[string]bool{} // token value is a title-cased form (and differs from the word)
	n, L, cap := 0, 0, ""
	kind := s.Kind
	switch s.Kind {
	case "char":
		s.Char.norm()
		if s.Char.Require != 0 || len(s.Char.RequireSets) != 0 {
			return skip("requirements: positions are not uniform")
		}
		r := s.Char.Recipe()
		alpha := strings.Split(r.Alphabet(), "")
		if r.Alphabet() == "" {
			return skip("empty alphabet")
		}
		symbols = map[string]int{}
		for k, c := range alpha {
			symbols[c] = k
		}
		n, L = len(alpha), r.Length
		gen = func() (*spg.Password, error) { return r.Generate() }
	case "wl":
		s.WL.norm()
		r, wl, err := s.WL.Build(nil)
		if err != nil || wl == nil {
			return skip("list rejected")
		}
		kept, uncap := spg.VerifWordListState(wl)
		sort.Strings(kept)
		symbols = map[string]int{}
		for k, w := range kept {
			symbols[w] = k
		}
		for k, w := range kept {
			t := strings.Title(w)
			if t != w {
				if _, clash := symbols[t]; clash {
					return skip("a title form coincides with another word (outside the premise of C04)")
				}
				symbols[t] = k
				capOf[t] = true
			}
		}
		n, L, cap = len(kept), r.Length, string(r.Capitalize)
		if uncap > 0 {
			cap = "" // capitalisation law only for lists whose every word changes under title-casing
		}
		gen = func() (*spg.Password, error) { return r.Generate() }
	default:
		return skip("unknown kind")
	}
	if L < 1 || n < 1 {
		return skip("nothing to sample")
	}
	old := randReaderSwap(&prngReader{mrand.New(mrand.NewSource(seed*7919 + int64(id)))})
	defer randReaderSwap(old)
	mod8 := make([][]int, L)
	hist := [][]int{}
	caps := make([]int, L)
	pair := make([][]int, 0)
	for p := 0; p < L; p++ {
		mod8[p] = make([]int, 8)
		if n <= 64 {
			hist = append(hist, make([]int, n))
		}
		if p+1 < L {
			pair = append(pair, make([]int, 64))
		}
	}
	ok, fails, foreign := 0, 0, 0
	idx := make([]int, L)
	for k := 0; k < N; k++ {
		p, err := gen()
		if err != nil || p == nil {
			fails++
			continue
		}
		var atoms []string
		if kind == "char" {
			atoms = strings.Split(p.String(), "")
		} else {
			atoms = p.Tokens().Atoms()
		}
		if len(atoms) != L {
			foreign++
			continue
		}
		good := true
		ncap := 0
		for q, a := range atoms {
			j, found := symbols[a]
			if !found {
				good = false
				break
			}
			idx[q] = j
			if capOf[a] {
				ncap++
			}
		}
		if !good {
			foreign++
			continue
		}
		ok++
		for q := 0; q < L; q++ {
			mod8[q][idx[q]%8]++
			if n <= 64 {
				hist[q][idx[q]]++
			}
			if q+1 < L {
				pair[q][8*(idx[q]%8)+idx[q+1]%8]++
			}
			if capOf[atoms[q]] {
				caps[q]++
			}
		}
	}
	if cap != "random" && cap != "one" {
		cap = ""
	}
	return map[string]interface{}{"op": "marg", "id": id, "tag": s.Tag, "kind": kind, "n": n, "L": L, "N": ok, "fails": fails, "foreign": foreign,
		"mod8": mod8, "hist": hist, "pair": pair, "cap": cap, "caps": caps}
}
