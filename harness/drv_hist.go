package main

// C15 driver: histories of API calls interleaved with caller-side field
// updates on one or several recipe values. Every call is made on the
// long-lived value and, on the same source bytes, on a fresh twin built from
// the same current field values; deep snapshots are compared before/after.

import (
	"bufio"
	"encoding/json"
	"flag"
	"fmt"
	"os"
	"reflect"
	"time"

	"go.1password.io/spg"
)

func init() {
	commands["hist"] = cmdHist
}

type HStep struct {
	Op        string    `json:"op"` // set | setelem | share | call
	Obj       int       `json:"obj"`
	From      int       `json:"from"`
	Field     string    `json:"field"`
	Ival      int       `json:"ival"`
	Sval      string    `json:"sval"`
	Cps       []int     `json:"cps"`
	Sets      [][]int   `json:"sets"`
	Idx       int       `json:"idx"`
	Paths     int       `json:"paths"`
	Sep       string    `json:"sep"`
	SepRecipe *CharSpec `json:"sepRecipe"`
}

type Hist struct {
	Kind        string     `json:"kind"` // chist | whist
	Objs        []CharSpec `json:"objs"`
	WObjs       []WLSpec   `json:"wobjs"`
	Words       [][]int    `json:"words"`
	Steps       []HStep    `json:"steps"`
	MaxTrials   int        `json:"maxTrials"`
	FailRateOne int        `json:"failRateOne"`
	Tag         string     `json:"tag"`
}

func stripVolatile(evs []interface{}) string {
	b, _ := json.Marshal(evs)
	var arr []map[string]interface{}
	json.Unmarshal(b, &arr)
	for _, m := range arr {
		delete(m, "mutated")
		delete(m, "hidden")
		delete(m, "twinDiff")
	}
	out, _ := json.Marshal(arr)
	return string(out)
}

func runCharHist(em *Emitter, hid int, h Hist, seed int64) (hung bool) {
	objs := make([]spg.CharRecipe, len(h.Objs))
	for i := range h.Objs {
		h.Objs[i].norm()
		objs[i] = h.Objs[i].Recipe()
	}
	call := 0
	curMT := h.MaxTrials // the attempt limit the caller has configured at this point of the history (0: the default)
	for si, st := range h.Steps {
		if st.Obj < 0 || st.Obj >= len(objs) {
			continue
		}
		r := &objs[st.Obj]
		switch st.Op {
		case "setlimits": // the caller configures another attempt limit between two calls (Process!SetLimits)
			curMT = st.Ival
		case "fault": // the random source fails during one Generate call (at read Idx, after Ival bytes); the caller recovers the panic
			failingCall(func() { r.Generate() }, seed+int64(si), st.Idx, st.Ival)
			processFaulted = true
		case "set":
			switch st.Field {
			case "len":
				r.Length = st.Ival
			case "allow":
				r.Allow = spg.CTFlag(st.Ival)
			case "require":
				r.Require = spg.CTFlag(st.Ival)
			case "exclude":
				r.Exclude = spg.CTFlag(st.Ival)
			case "allowChars":
				r.AllowChars = FromCPs(st.Cps)
			case "excludeChars":
				r.ExcludeChars = FromCPs(st.Cps)
			case "requireSets":
				r.RequireSets = FromCPsList(st.Sets)
			}
		case "setelem": // the caller rewrites one element of the slice it passed in
			if st.Idx >= 0 && st.Idx < len(r.RequireSets) {
				r.RequireSets[st.Idx] = FromCPs(st.Cps)
			}
		case "sharetable": // two recipes use sub-slices of ONE caller-owned table: this one the first Idx entries, the other one more (spare capacity)
			if st.From >= 0 && st.From < len(objs) && st.Idx >= 1 {
				table := make([]string, st.Idx+1, st.Idx+1)
				for k := range table {
					table[k] = FromCPs(st.Sets[k%len(st.Sets)])
				}
				r.RequireSets = table[:st.Idx]
				objs[st.From].RequireSets = table[:st.Idx+1]
			}
		case "share": // two recipes share one RequireSets slice
			if st.From >= 0 && st.From < len(objs) {
				r.RequireSets = objs[st.From].RequireSets
			}
		case "call":
			call++
			si, st := si, st
			if !afterFault(processFaulted, func() {
				snaps := make([]CharSpec, len(objs))
				for i := range objs {
					snaps[i] = CharSpecOf(objs[i])
				}
				spec := snaps[st.Obj]
				sc := Scenario{Kind: "char", Char: &spec, MaxTrials: curMT, FailRateOne: h.FailRateOne, Mode: "paths", Paths: st.Paths,
					Tag: fmt.Sprintf("%s#%d.%d", h.Tag, hid, si)}
				s := seed*1000003 + int64(hid)*1009 + int64(si)
				evs := charCellEvents(hid*1000+si, sc, s, r)
				fresh := spec.Recipe()
				spec2 := spec
				sc2 := sc
				sc2.Char = &spec2
				evs2 := charCellEvents(hid*1000+si, sc2, s, &fresh)
				cell := evs[0].(*CellEv)
				if stripVolatile(evs) != stripVolatile(evs2) {
					cell.TwinDiff = 1
				}
				for i := range objs {
					if !reflect.DeepEqual(snaps[i], CharSpecOf(objs[i])) {
						cell.Mutated = 1
					}
				}
				for _, ev := range evs {
					em.Emit(ev)
				}
			}) {
				em.Emit(map[string]interface{}{"op": "hang", "id": hid*1000 + si, "tag": fmt.Sprintf("%s#%d.%d", h.Tag, hid, si)})
				return true
			}
		}
	}
	return false
}

// failingCall runs one library call on a random source that fails at read `at` (1-based) after `got` bytes; the panic is recovered.
func failingCall(f func(), seed int64, at, got int) {
	e := NewEnum(seed)
	e.Policy = func(j int, n uint32) uint32 { return uint32(e.Rng.Int63n(int64(n))) }
	if at < 1 {
		at = 1
	}
	e.FailAtRead, e.FailGot = at, got
	e.Run(nil, f)
}

// afterFault runs a step; once an earlier call of the history has failed, it runs under a deadline: the calls of a history take
// milliseconds, so a call that has not returned after hangDeadline never will (e.g. a lock left held by the failed call).
const hangDeadline = 45 * time.Second

// whatever a failed call may have left behind is process-wide: every later call of this process runs under the deadline
var processFaulted bool

func afterFault(faulted bool, f func()) bool {
	if !faulted {
		f()
		return true
	}
	return withDeadline(f, hangDeadline)
}

func applyWL(r *spg.WLRecipe, st HStep) {
	switch st.Field {
	case "len":
		r.Length = st.Ival
	case "cap":
		r.Capitalize = spg.CapScheme(st.Sval)
	case "sepChar":
		r.SeparatorChar = FromCPs(st.Cps)
	case "sep":
		switch st.Sep {
		case "char":
			r.SeparatorFunc = nil
		case "recipe":
			r.SeparatorFunc = spg.NewSFFunction(st.SepRecipe.Recipe())
		default:
			if p, ok := presets[st.Sep]; ok {
				r.SeparatorFunc = *p
			}
		}
	}
}

func runWLHist(em *Emitter, hid int, h Hist, seed int64) (hung bool) {
	wl, err := spg.NewWordList(FromCPsList(h.Words))
	if err != nil {
		return
	}
	objs := make([]*spg.WLRecipe, len(h.WObjs))
	specs := make([]WLSpec, len(h.WObjs))
	for i := range h.WObjs {
		h.WObjs[i].norm()
		specs[i] = h.WObjs[i]
		specs[i].Words = h.Words
		r, _, err := specs[i].Build(wl)
		if err != nil {
			return
		}
		objs[i] = &r
	}
	curMT := h.MaxTrials
	for si, st := range h.Steps {
		if st.Obj < 0 || st.Obj >= len(objs) {
			continue
		}
		switch st.Op {
		case "setlimits":
			curMT = st.Ival
		case "nest":
			// the recipe is generated from INSIDE a chain of st.Idx other Generate calls (each level's separator function calls the level
			// below): the innermost call has the same fields as a call made alone, so it has the same right to a password
			depth := st.Idx
			inner := *objs[st.Obj]
			var innerRes, wrapRes GenRes
			got, wrapFailed := false, false
			below := &inner
			for d := 1; d <= depth; d++ {
				b, dd := below, d
				lv := *objs[st.Obj]
				lv.Length = 1
				lv.SeparatorFunc = func() (string, spg.FloatE) {
					p, err := b.Generate()
					if dd == 1 && !got {
						innerRes, got = ResOf(p, err, nil), true
					}
					if dd > 1 && (err != nil || p == nil) && !wrapFailed {
						// a wrapping level (one word, a separator function that returns ""): it, too, is fine when called alone
						wrapRes, wrapFailed = ResOf(p, err, nil), true
					}
					return "", 0
				}
				below = &lv
			}
			func() {
				defer func() { recover() }()
				p, err := below.Generate()
				if (err != nil || p == nil) && !wrapFailed {
					wrapRes, wrapFailed = ResOf(p, err, nil), true
				}
			}()
			if wrapFailed {
				spec := specs[st.Obj]
				spec.Len, spec.Sep, spec.SepVals, spec.SepRecipe = 1, "customlist", [][]int{{}}, nil
				sc := Scenario{Kind: "wl", WL: &spec, MaxTrials: curMT, FailRateOne: h.FailRateOne, Mode: "paths", Paths: 0,
					Tag: fmt.Sprintf("%s#%d.%d-wrapping-level-of-%d", h.Tag, hid, si, depth)}
				if cp, _, err := spec.Build(wl); err == nil {
					evs := wlCellEvents(hid*1000+si, sc, seed+int64(si), &cp, wl)
					em.Emit(evs[0])
					em.Emit(LeafEv{Op: "wleaf", D: [][2]int{}, Det: -1, Res: wrapRes, PathW: []int{}, Reads: 1, Trunc: 1, PathProd: []int{}})
					em.Emit(map[string]interface{}{"op": "wcellend", "id": hid*1000 + si})
				}
			}
			if got {
				spec := specs[st.Obj]
				sc := Scenario{Kind: "wl", WL: &spec, MaxTrials: curMT, FailRateOne: h.FailRateOne, Mode: "paths", Paths: 0,
					Tag: fmt.Sprintf("%s#%d.%d-nested-%d-deep", h.Tag, hid, si, depth)}
				cp := *objs[st.Obj]
				evs := wlCellEvents(hid*1000+si, sc, seed+int64(si), &cp, wl)
				em.Emit(evs[0])
				em.Emit(LeafEv{Op: "wleaf", D: [][2]int{}, Det: -1, Res: innerRes, PathW: []int{}, Reads: 1, Trunc: 1, PathProd: []int{}})
				em.Emit(map[string]interface{}{"op": "wcellend", "id": hid*1000 + si})
			}
		case "fault":
			failingCall(func() { objs[st.Obj].Generate() }, seed+int64(si), st.Idx, st.Ival)
			processFaulted = true
		case "set":
			applyWL(objs[st.Obj], st)
			sp := &specs[st.Obj]
			switch st.Field {
			case "len":
				sp.Len = st.Ival
			case "cap":
				sp.Cap = st.Sval
			case "sepChar":
				sp.SepChar = st.Cps
				if sp.SepChar == nil {
					sp.SepChar = []int{}
				}
			case "sep":
				sp.Sep = st.Sep
				sp.SepRecipe = st.SepRecipe
			}
		case "call":
			si, st := si, st
			if !afterFault(processFaulted, func() {
				spec := specs[st.Obj]
				sc := Scenario{Kind: "wl", WL: &spec, MaxTrials: curMT, FailRateOne: h.FailRateOne, Mode: "paths", Paths: st.Paths,
					Tag: fmt.Sprintf("%s#%d.%d", h.Tag, hid, si)}
				s := seed*1000003 + int64(hid)*1009 + int64(si)
				evs := wlCellEvents(hid*1000+si, sc, s, objs[st.Obj], wl)
				spec2 := spec
				sc2 := sc
				sc2.WL = &spec2
				// the twin is a fresh recipe on the SAME list object (a new list would order its words differently)
				fresh, _, _ := spec2.Build(wl)
				evs2 := wlCellEvents(hid*1000+si, sc2, s, &fresh, wl)
				cell := evs[0].(*WCellEv)
				if stripVolatile(evs) != stripVolatile(evs2) {
					cell.TwinDiff = 1
				}
				for _, ev := range evs {
					em.Emit(ev)
				}
			}) {
				em.Emit(map[string]interface{}{"op": "hang", "id": hid*1000 + si, "tag": fmt.Sprintf("%s#%d.%d", h.Tag, hid, si)})
				return true
			}
		}
	}
	return false
}

func cmdHist(args []string) {
	fs := flag.NewFlagSet("hist", flag.ExitOnError)
	seed := fs.Int64("seed", 1, "")
	scen := fs.String("scen", "", "")
	outc := fs.String("outc", "hist-char.ndjson", "")
	outw := fs.String("outw", "hist-wl.ndjson", "")
	shard := fs.Int("shard", 0, "")
	shards := fs.Int("shards", 1, "")
	fs.Parse(args)
	f, err := os.Open(*scen)
	if err != nil {
		fatal("%v", err)
	}
	defer f.Close()
	emc, emw := NewEmitter(*outc), NewEmitter(*outw)
	sc := bufio.NewScanner(f)
	sc.Buffer(make([]byte, 1<<20), 1<<26)
	i := -1
	for sc.Scan() {
		i++
		if i%*shards != *shard || len(sc.Bytes()) == 0 {
			continue
		}
		var h Hist
		if err := json.Unmarshal(sc.Bytes(), &h); err != nil {
			fatal("history: %v", err)
		}
		restore := setEnv(h.MaxTrials, h.FailRateOne)
		hung := false
		if h.Kind == "chist" {
			hung = runCharHist(emc, i, h, *seed)
		} else {
			hung = runWLHist(emw, i, h, *seed)
		}
		if hung {
			// a library call is stuck for good (its goroutine still exists): nothing further can be trusted in this process
			emc.Close()
			emw.Close()
			fmt.Printf("{\"cevents\":%d,\"wevents\":%d,\"hung\":1}\n", emc.N, emw.N)
			os.Exit(0)
		}
		restore()
	}
	emc.Close()
	emw.Close()
	fmt.Printf("{\"cevents\":%d,\"wevents\":%d}\n", emc.N, emw.N)
}
