package main

import (
	"crypto/rand"
	"io"
)

func randReaderSwap(r io.Reader) io.Reader {
	old := rand.Reader
	rand.Reader = r
	return old
}
