package main

// Character-recipe drivers: complete choice trees ("cells") of the real
// CharRecipe.Generate, or selected paths through it, plus the recipe's
// Alphabet(), Entropy(), SuccessProbability() and exact count.

import (
	"bufio"
	"encoding/json"
	"flag"
	"fmt"
	"math/big"
	mrand "math/rand"
	"os"
	"reflect"

	"go.1password.io/spg"
)

func init() {
	commands["chartree"] = cmdCharTree
}

type Scenario struct {
	Kind        string    `json:"kind"` // char | wl
	Char        *CharSpec `json:"char,omitempty"`
	WL          *WLSpec   `json:"wl,omitempty"`
	MaxTrials   int       `json:"maxTrials"`   // 0 = leave default (200)
	FailRateOne int       `json:"failRateOne"` // 1: MaxFailRate = 1
	Mode        string    `json:"mode"`        // tree | paths
	Paths       int       `json:"paths"`
	MaxLeaves   int       `json:"maxLeaves"`
	Tag         string    `json:"tag"`
	Reps        int       `json:"reps"`     // wl: construct the list this many times from permuted/duplicated input, report distinct outcomes
	Line        int       `json:"line"`     // mode "line": index of the draw whose every value is tried while all other draws stay fixed
	Prefault    int       `json:"prefault"` // > 0: before the cell, one more call is made whose source fails at this read (recovered): what a failed call leaves behind must not reach later calls
}

type LeafEv struct {
	Op       string   `json:"op"`
	D        [][2]int `json:"d"`   // [bound, index] per draw
	Rej      int      `json:"rej"` // rejected words interleaved
	Reads    int      `json:"reads"`
	Words    int      `json:"words"`
	Left     int      `json:"left"` // bytes pushed but never read
	Unann    int      `json:"unann"`
	Det      int      `json:"det"` // 1 same result on the re-run with other representatives/chunking, 0 differs, -1 not re-run
	Res      GenRes   `json:"res"`
	PathW    []int    `json:"w"`     // cell denominator / product of bounds, as limbs (filled for complete cells)
	ND       int      `json:"nd"`    // number of draws made (D is cut after 1200 entries)
	Trunc    int      `json:"trunc"` // 1: D was cut
	Conc     int      `json:"conc"`  // 1: a call made concurrently with others under real randomness (no draws recorded)
	Cfg      int      `json:"cfg"`   // 1: the process-wide limits were not the configured ones at some draw of this run, or after it
	PathProd []int    `json:"pp"`    // product of the bounds of ALL draws of this run, as limbs: the run's own probability is 1/pp
	PPC      int      `json:"ppc"`   // 1: the path-mass rule is evaluated for this run (the first two runs of every cell: a log2 bracket per run is costly)
}

type CellEv struct {
	Op          string   `json:"op"`
	ID          int      `json:"id"`
	Tag         string   `json:"tag"`
	Kind        string   `json:"kind"`
	Char        CharSpec `json:"char"`
	MaxTrials   int      `json:"maxTrials"`
	FailRateOne int      `json:"failRateOne"`
	Alpha       []int    `json:"alpha"`
	Ent         Dyadic   `json:"ent"`
	Ent2        Dyadic   `json:"ent2"` // second call
	SP          Dyadic   `json:"sp"`
	Count       []int    `json:"count"`
	CountNeg    int      `json:"countNeg"`
	Den         []int    `json:"den"`
	DenInt      int      `json:"denInt"` // den if < 2^30 else -1
	Complete    int      `json:"complete"`
	Opaque      int      `json:"opaque"`
	Unstable    int      `json:"unstable"`
	NLeaves     int      `json:"nleaves"`
	TwinDiff    int      `json:"twinDiff"` // 1: a fresh recipe with the same field values gave different results on the same bytes
	Mutated     int      `json:"mutated"`  // 1: the recipe value changed across the calls (public fields)
	Hidden      int      `json:"hidden"`   // 1: derived unexported fields of the caller's value became non-nil
	PrevChg     int      `json:"prevChg"`  // >0: an earlier password changed when a later one was generated
	ErrChg      int      `json:"errChg"`   // >0: an error value returned by an earlier call reads differently after a later call
}

func setEnv(maxTrials, failRateOne int) func() {
	oldT, oldF := spg.MaxTrials, spg.MaxFailRate
	if maxTrials > 0 {
		spg.MaxTrials = maxTrials
	}
	if failRateOne == 1 {
		spg.MaxFailRate = 1.0
	}
	return func() { spg.MaxTrials, spg.MaxFailRate = oldT, oldF }
}

func hiddenNonNil(r interface{}) bool {
	v := reflect.ValueOf(r)
	for i := 0; i < v.NumField(); i++ {
		f := v.Type().Field(i)
		if f.PkgPath != "" { // unexported
			fv := v.Field(i)
			switch fv.Kind() {
			case reflect.Ptr, reflect.Map, reflect.Slice, reflect.Interface, reflect.Func, reflect.Chan:
				if !fv.IsNil() && f.Name != "list" {
					return true
				}
			}
		}
	}
	return false
}

// The error value a call returned belongs to that call: what it says must not change when later calls (on this or any other
// recipe, anywhere in the process) are made. The last few error values are kept with what they said when they were returned.
var keptErrs []error
var keptErrMsgs []string

func errChanged(newErr error) (changed bool) {
	for i, e := range keptErrs {
		if e.Error() != keptErrMsgs[i] {
			changed = true
			keptErrMsgs[i] = e.Error()
		}
	}
	if newErr != nil {
		keptErrs, keptErrMsgs = append(keptErrs, newErr), append(keptErrMsgs, newErr.Error())
		if len(keptErrs) > 8 {
			keptErrs, keptErrMsgs = keptErrs[1:], keptErrMsgs[1:]
		}
	}
	return
}

// runCharCell enumerates (or samples paths of) one character recipe and emits its events.
func runCharCell(em *Emitter, id int, sc Scenario, seed int64) {
	sc.Char.norm()
	r := sc.Char.Recipe()
	for _, ev := range charCellEvents(id, sc, seed, &r) {
		em.Emit(ev)
	}
}

// charCellEvents runs the scenario on the recipe value *rp (calls are made on the value, as a caller would)
// and returns the cell, leaf and cellend events.
func charCellEvents(id int, sc Scenario, seed int64, rp *spg.CharRecipe) (events []interface{}) {
	restore := setEnv(sc.MaxTrials, sc.FailRateOne)
	defer restore()
	if sc.Prefault > 0 {
		fe := NewEnum(seed + 77)
		fe.FailAtRead = sc.Prefault
		fe.Policy = func(j int, n uint32) uint32 { return uint32(fe.Rng.Int63n(int64(n))) }
		fr := *rp
		if fr.Length < sc.Prefault {
			fr.Length = sc.Prefault + 1
		}
		fe.Run(nil, func() { fr.Generate() })
	}
	before := CharSpecOf(*rp)
	cell := CellEv{Op: "cell", ID: id, Tag: sc.Tag, Kind: "char", Char: *sc.Char, MaxTrials: spg.MaxTrials, FailRateOne: sc.FailRateOne,
		Count: []int{}, Den: []int{}, DenInt: -1}
	func() {
		defer func() { recover() }()
		cell.Alpha = CPs(rp.Alphabet())
	}()
	if cell.Alpha == nil {
		cell.Alpha = []int{}
	}
	func() {
		defer func() {
			if recover() != nil {
				cell.Ent = Dyadic{K: "panic"}
			}
		}()
		cell.Ent = DyadicOf(rp.Entropy())
		cell.Ent2 = DyadicOf(rp.Entropy())
		cell.SP = DyadicOf(rp.SuccessProbability())
		c := spg.VerifCount(*rp)
		cell.Count = Limbs(c)
		if c.Sign() < 0 {
			cell.CountNeg = 1
		}
	}()
	e := NewEnum(seed)
	e.MaxProd = 1 << 26
	type lf struct {
		ev   LeafEv
		prod *big.Int
	}
	var leaves []lf
	// a password handed out earlier must not change when a later one is generated (shared token buffers)
	var lastP *spg.Password
	var lastRes GenRes
	body := func(res *GenRes) func() {
		return func() {
			p, err := rp.Generate()
			*res = ResOf(p, err, nil)
			if lastP != nil && !reflect.DeepEqual(ResOf(lastP, nil, nil), lastRes) {
				cell.PrevChg++
			}
			if errChanged(err) {
				cell.ErrChg++
			}
			if err == nil && p != nil {
				lastP, lastRes = p, *res
			}
		}
	}
	visit := func(plan []uint32, out RunOut, res GenRes) {
		if out.Panic != nil {
			res = ResOf(nil, nil, out.Panic)
		}
		if out.Cut {
			res = GenRes{Kind: "cut", Toks: []TokJ{}, Str: []int{}, Ent: DyadicOf(0)}
		}
		ev := LeafEv{Op: "leaf", D: [][2]int{}, Reads: out.Tape.Reads, Words: len(out.Tape.Words), Left: out.Tape.Leftover(),
			Unann: out.Unannounced, Det: -1, Res: res, PathW: []int{}}
		prod := big.NewInt(1)
		for _, d := range out.Draws {
			ev.D = append(ev.D, [2]int{int(d.N), int(d.I)})
			ev.Rej += d.Rej
			prod.Mul(prod, big.NewInt(int64(d.N)))
		}
		ev.ND = len(ev.D)
		ev.PathProd = Limbs(prod)
		if len(leaves) < 2 {
			ev.PPC = 1
		}
		if out.CfgTouched {
			ev.Cfg = 1
		}
		if len(ev.D) > 1200 {
			ev.D, ev.Trunc = ev.D[:1200], 1
		}
		if out.Unstable || out.NoRep {
			cell.Unstable = 1
		}
		if out.Unannounced > 0 {
			cell.Opaque = 1
		}
		// determinism: same index path, other representatives and chunking
		e2 := *e
		e2.Chunk = [][]int{{1}, {2, 1}, {3}, {1, 3}, {-1, 2, -1, 2}, {-1, -1, -1, -1, 4}, {1, -1, 1, -1, 1, 1}}[e.Rng.Intn(7)]
		var res2 GenRes
		out2 := e2.Run(plan, body(&res2))
		if out2.Panic != nil {
			res2 = ResOf(nil, nil, out2.Panic)
		}
		if out.Cut {
			res2 = res
		}
		if reflect.DeepEqual(res, res2) {
			ev.Det = 1
		} else if res2.Kind == "panic" && res.Kind != "panic" {
			ev.Det = -1 // the re-run (short deliveries) was aborted: allowed by C09's second sentence, no password was built
		} else {
			ev.Det = 0
		}
		if out.Tape.Leftover() > 0 || out.Unannounced > 0 {
			// the code did not read exactly what the announced draws were given: the scripted words no longer line up with
			// the draws, so this run says nothing about index -> outcome (no distribution or determinism verdict from it)
			cell.Unstable = 1
			ev.Det = -1
		}
		if out.Prefetch || out2.Prefetch {
			// some read asked for more than one word: the code fetches words ahead of the draws that use them, so which scripted word
			// served which draw is a matter of luck (this run may line up and its re-run not): no distribution or determinism verdict
			cell.Unstable = 1
			ev.Det = -1
		}
		// (when only the RE-RUN, fed the same bytes in short chunks, fails to line up, the cell stays decidable from the
		// fully delivered run, and a differing result is the determinism finding det = 0: the code did not complete a short read)
		leaves = append(leaves, lf{ev, prod})
	}
	maxLeaves := sc.MaxLeaves
	if maxLeaves == 0 {
		maxLeaves = 20000
	}
	if sc.Mode == "paths" {
		e.MaxProd, e.MaxDraws = 0, 400000
		// selected paths: all-first, all-last, first attempt all-first then seeded, then seeded random index paths
		for k := 0; k < sc.Paths; k++ {
			var res GenRes
			kind := k
			L := sc.Char.Len
			e.Policy = func(j int, n uint32) uint32 {
				switch {
				case kind == 0:
					return 0
				case kind == 1:
					return n - 1
				case kind == 2 && j < L:
					return 0
				case kind == 3 && j < L:
					return n - 1
				}
				return uint32(e.Rng.Int63n(int64(n)))
			}
			out := e.Run(nil, body(&res))
			e.Policy = nil
			full := make([]uint32, len(out.Draws))
			for i, d := range out.Draws {
				full[i] = d.I
			}
			visit(full, out, res)
		}
	} else {
		var res GenRes
		complete, _ := e.Tree(maxLeaves, body(&res), func(plan []uint32, out RunOut) bool {
			visit(plan, out, res)
			return true
		})
		if complete && cell.Unstable == 0 {
			cell.Complete = 1
		}
	}
	after := CharSpecOf(*rp)
	if !reflect.DeepEqual(before, after) {
		cell.Mutated = 1
	}
	if hiddenNonNil(*rp) {
		cell.Hidden = 1
	}
	cell.NLeaves = len(leaves)
	if cell.Complete == 1 {
		den := big.NewInt(1)
		for _, l := range leaves { // lcm of the path products
			g := new(big.Int).GCD(nil, nil, den, l.prod)
			den.Mul(den, new(big.Int).Quo(l.prod, g))
		}
		cell.Den = Limbs(den)
		if den.BitLen() <= 30 {
			cell.DenInt = int(den.Int64())
		}
		for i := range leaves {
			leaves[i].ev.PathW = Limbs(new(big.Int).Quo(den, leaves[i].prod))
		}
	}
	if len(e.Unreachable) > 0 {
		cell.Unstable = 1
	}
	events = append(events, &cell)
	for _, l := range leaves {
		events = append(events, l.ev)
	}
	events = append(events, map[string]interface{}{"op": "cellend", "id": id})
	return events
}

// ---- seeded scenario generators ----

var charPool = []rune{'a', 'b', 'Z', '7', '-', 'é', 'ű', 'β', '™', '漢', '😀', 0xE000}

func pick(rng *mrand.Rand, pool []rune, k int) []int {
	out := []int{}
	for i := 0; i < k; i++ {
		out = append(out, int(pool[rng.Intn(len(pool))]))
	}
	return out
}

func genSmallChar(rng *mrand.Rand) Scenario {
	np := 2 + rng.Intn(4)
	perm := rng.Perm(len(charPool))
	pool := make([]rune, np)
	for i := range pool {
		pool[i] = charPool[perm[i]]
	}
	c := &CharSpec{Len: 1 + rng.Intn(3)}
	c.AllowChars = pick(rng, pool, rng.Intn(np+2)) // duplicates likely
	nreq := rng.Intn(3)
	for i := 0; i < nreq; i++ {
		c.RequireSets = append(c.RequireSets, pick(rng, pool, 1+rng.Intn(2)))
	}
	if rng.Intn(3) == 0 {
		c.ExcludeChars = pick(rng, pool, 1)
	}
	if rng.Intn(6) == 0 && nreq > 0 { // equal required sets
		c.RequireSets = append(c.RequireSets, c.RequireSets[0])
	}
	if rng.Intn(8) == 0 { // a class that is mostly excluded again: few characters survive
		c.Allow = int(spg.Symbols)
		c.ExcludeChars = append(c.ExcludeChars, CPs("@.-_")...)
	}
	c.norm()
	mt := 1 + rng.Intn(3)
	if c.Len == 3 && mt == 3 {
		mt = 2
	}
	return Scenario{Kind: "char", Char: c, MaxTrials: mt, FailRateOne: 1, Mode: "tree", Tag: "small"}
}

func genFlagChar(rng *mrand.Rand) Scenario {
	c := &CharSpec{Len: 1 + rng.Intn(2)}
	c.Allow = rng.Intn(32)
	if rng.Intn(2) == 0 {
		c.Allow &= int(spg.Digits | spg.Symbols | spg.Ambiguous)
	}
	c.Exclude = []int{0, int(spg.Ambiguous), int(spg.Digits), rng.Intn(32)}[rng.Intn(4)]
	if rng.Intn(3) == 0 {
		c.Require = []int{int(spg.Digits), int(spg.Symbols), int(spg.Uppers), int(spg.Digits | spg.Symbols)}[rng.Intn(4)]
	}
	if rng.Intn(4) == 0 {
		c.AllowChars = CPs("a0é")
	}
	if rng.Intn(5) == 0 {
		c.RequireSets = [][]int{CPs("357")}
	}
	c.norm()
	return Scenario{Kind: "char", Char: c, MaxTrials: 1, FailRateOne: 1, Mode: "tree", MaxLeaves: 8000, Tag: "flags"}
}

func readScenarios(path string) []Scenario {
	f, err := os.Open(path)
	if err != nil {
		fatal("%v", err)
	}
	defer f.Close()
	var out []Scenario
	sc := bufio.NewScanner(f)
	sc.Buffer(make([]byte, 1<<20), 1<<26)
	for sc.Scan() {
		if len(sc.Bytes()) == 0 {
			continue
		}
		var s Scenario
		if err := json.Unmarshal(sc.Bytes(), &s); err != nil {
			fatal("scenario: %v", err)
		}
		out = append(out, s)
	}
	return out
}

func cmdCharTree(args []string) {
	fs := flag.NewFlagSet("chartree", flag.ExitOnError)
	seed := fs.Int64("seed", 1, "")
	out := fs.String("out", "char.ndjson", "")
	nsmall := fs.Int("small", 20, "seeded small-universe recipes")
	nflag := fs.Int("flags", 5, "seeded class-flag recipes")
	scen := fs.String("scen", "", "scenario file (NDJSON), run instead of the seeded generators")
	shard := fs.Int("shard", 0, "")
	shards := fs.Int("shards", 1, "")
	fs.Parse(args)
	rng := mrand.New(mrand.NewSource(*seed))
	var scs []Scenario
	if *scen != "" {
		scs = readScenarios(*scen)
	} else {
		for i := 0; i < *nsmall; i++ {
			scs = append(scs, genSmallChar(rng))
		}
		for i := 0; i < *nflag; i++ {
			scs = append(scs, genFlagChar(rng))
		}
	}
	em := NewEmitter(*out)
	cells, leaves := 0, 0
	for i, sc := range scs {
		if i%*shards != *shard {
			continue
		}
		if sc.Kind != "char" || sc.Char == nil {
			continue
		}
		n0 := em.N
		if !withDeadline(func() { runCharCell(em, i, sc, *seed*1000003+int64(i)) }, cellDeadline) {
			// the library did not come back (e.g. an exponential count or an unbounded loop): keep what is complete, stop this shard
			em.Close()
			fmt.Printf("{\"cells\":%d,\"leaves\":%d,\"timeout\":%d}\n", cells, leaves, i)
			os.Exit(5)
		}
		cells++
		leaves += em.N - n0 - 2
	}
	em.Close()
	fmt.Printf("{\"cells\":%d,\"leaves\":%d}\n", cells, leaves)
}
