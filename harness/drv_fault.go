package main

// C09 driver: fault enumeration. For each recipe a fault-free generation is
// recorded (the exact words consumed); then, for EVERY read of that run, the
// same bytes are replayed with (a) an error after 0..3 bytes at that read and
// (b) short successful deliveries at that read.

import (
	"bufio"
	"encoding/json"
	"flag"
	"fmt"
	"io"
	"os"
	"reflect"
	"syscall"

	"go.1password.io/spg"
)

func init() {
	commands["faults"] = cmdFaults
}

type FaultEv struct {
	Op      string `json:"op"`
	ID      int    `json:"id"`
	Kind    string `json:"kind"`
	Mode    string `json:"mode"` // base | error | short | chunked
	K       int    `json:"k"`    // 1-based read index where the fault is injected
	J       int    `json:"j"`    // bytes delivered by that read
	Reads   int    `json:"reads"`
	Words   int    `json:"words"`
	Res     GenRes `json:"res"`
	Same    int    `json:"same"` // result identical to the fault-free run
	Starved int    `json:"starved"`
	ErrKind string `json:"errKind"` // plain | EINTR | EAGAIN | wrapped-EINTR | EOF (unexpected) | ioEOF (bare io.EOF)
}

func genBody(sc Scenario) (func() GenRes, error) {
	switch sc.Kind {
	case "char":
		sc.Char.norm()
		r := sc.Char.Recipe()
		return func() GenRes { p, err := r.Generate(); return ResOf(p, err, nil) }, nil
	case "wl":
		sc.WL.norm()
		r, _, err := sc.WL.Build(nil)
		if err != nil {
			return nil, err
		}
		return func() GenRes { p, err := r.Generate(); return ResOf(p, err, nil) }, nil
	}
	return nil, fmt.Errorf("kind")
}

func runOnTape(t *Tape, body func() GenRes) (res GenRes) {
	old := randReaderSwap(t)
	defer randReaderSwap(old)
	defer func() {
		if r := recover(); r != nil {
			res = ResOf(nil, nil, r)
		}
	}()
	return body()
}

func cmdFaults(args []string) {
	fs := flag.NewFlagSet("faults", flag.ExitOnError)
	seed := fs.Int64("seed", 1, "")
	scen := fs.String("scen", "", "")
	out := fs.String("out", "fault.ndjson", "")
	shard := fs.Int("shard", 0, "")
	shards := fs.Int("shards", 1, "")
	baseOnly := fs.Bool("baseonly", false, "only the fault-free runs (to be compared with the same runs of another process, later)")
	compare := fs.String("compare", "", "trace of an earlier -baseonly run of the same scenarios and seed: emit 'rerun' events")
	fs.Parse(args)
	scs := readScenarios(*scen)
	em := NewEmitter(*out)
	earlier := map[int]GenRes{}
	if *compare != "" {
		if f, err := os.Open(*compare); err == nil {
			sc := bufio.NewScanner(f)
			sc.Buffer(make([]byte, 1<<20), 1<<26)
			for sc.Scan() {
				var ev FaultEv
				if json.Unmarshal(sc.Bytes(), &ev) == nil && ev.Mode == "base" {
					earlier[ev.ID] = ev.Res
				}
			}
			f.Close()
		}
	}
	for i, sc := range scs {
		if i%*shards != *shard {
			continue
		}
		restore := setEnv(sc.MaxTrials, sc.FailRateOne)
		body, err := genBody(sc)
		if err != nil {
			restore()
			continue
		}
		// fault-free run on a seeded index path (random policy), recording the words consumed
		e := NewEnum(*seed*7919 + int64(i))
		e.RejectProb = 0.3
		e.Policy = func(j int, n uint32) uint32 { return uint32(e.Rng.Int63n(int64(n))) }
		var base GenRes
		o := e.Run(nil, func() { base = body() })
		if o.Panic != nil {
			base = ResOf(nil, nil, o.Panic)
		}
		words := o.Tape.Words
		R := o.Tape.Reads
		if *compare != "" {
			if sc.Kind != "char" {
				// a word list orders its words afresh in every construction (map order): the same indices select other
				// words in another process, so only character recipes are comparable across processes
				restore()
				continue
			}
			ev := FaultEv{Op: "fault", ID: i, Kind: sc.Kind, Mode: "rerun", Reads: R, Words: len(words), Res: base}
			if prev, ok := earlier[i]; ok && sameJSON(prev, base) { // (as written and read back: nil and empty lists are the same result)
				ev.Same = 1
			}
			em.Emit(ev)
			restore()
			continue
		}
		em.Emit(FaultEv{Op: "fault", ID: i, Kind: sc.Kind, Mode: "base", Reads: R, Words: len(words), Res: base, Same: 1})
		if *baseOnly {
			restore()
			continue
		}
		errKinds := []struct {
			name string
			err  error
		}{{"plain", nil}, {"EINTR", syscall.EINTR}, {"EAGAIN", syscall.EAGAIN}, {"wrapped-EINTR", fmt.Errorf("read /dev/urandom: %w", syscall.EINTR)},
			{"EOF", io.ErrUnexpectedEOF},
			// what a sandboxed or exhausted system may answer: no error of the source is ever a reason to go on with other bytes
			{"ENOSYS", syscall.ENOSYS}, {"EPERM", syscall.EPERM}, {"EIO", syscall.EIO}, {"EBADF", syscall.EBADF}, {"ENOMEM", syscall.ENOMEM},
			{"getrandom-ENOSYS", os.NewSyscallError("getrandom", syscall.ENOSYS)}, {"open-EPERM", &os.PathError{Op: "open", Path: "/dev/urandom", Err: syscall.EPERM}},
			{"deadline", os.ErrDeadlineExceeded}, {"EACCES", syscall.EACCES}, {"ENOENT", &os.PathError{Op: "open", Path: "/dev/urandom", Err: syscall.ENOENT}},
			{"ioEOF", io.EOF}}
		nerr := 0
		replay := func(mode string, k, j int, chunk []int) {
			t := &Tape{}
			for _, w := range words {
				t.Push(w)
			}
			ek := errKinds[0]
			if mode == "error-eof" {
				// the source is exhausted exactly at a word boundary: a bare io.EOF with nothing delivered
				mode, ek = "error", errKinds[len(errKinds)-1]
				t.FailAt, t.FailGot, t.FailErr = k, 0, ek.err
			} else if mode == "error" {
				ek = errKinds[nerr%len(errKinds)]
				nerr++
				t.FailAt, t.FailGot, t.FailErr = k, j, ek.err
			} else {
				// short successful deliveries: reads before k are whole; from k on, chunked as planned
				t.Chunk = chunk
				t.chunkFrom = k
			}
			res := runOnTape(t, body)
			ev := FaultEv{Op: "fault", ID: i, Kind: sc.Kind, Mode: mode, K: k, J: j, Reads: t.Reads, Words: len(words), Res: res, ErrKind: ek.name}
			if reflect.DeepEqual(res, base) {
				ev.Same = 1
			}
			if t.Exhausted {
				ev.Starved = 1
			}
			em.Emit(ev)
		}
		for k := 1; k <= R; k++ {
			for j := 0; j <= 3; j++ {
				replay("error", k, j, nil)
			}
			replay("error-eof", k, 0, nil)
			for _, ch := range [][]int{{1}, {2}, {3}, {1, 1, 1, 1}, {2, 1}, {1, 3}} {
				replay("short", k, ch[0], ch)
			}
			// ... and reads that deliver NOTHING without an error, between the bytes of a word and in front of it
			for _, ch := range [][]int{{1, -1, 1, -1, 1, 1}, {-1, -1, -1, -1, 4}, {2, -1, -1, -1, 2}, {-1, 4}, {-1, 1, -1, 1, -1, 1, -1, 1}} {
				replay("short", k, 0, ch)
			}
		}
		restore()
	}
	em.Close()
	fmt.Printf("{\"events\":%d}\n", em.N)
}

func sameJSON(a, b interface{}) bool {
	x, _ := json.Marshal(a)
	y, _ := json.Marshal(b)
	return string(x) == string(y)
}

var _ = spg.MaxTrials
