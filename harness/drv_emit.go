package main

// C18 driver: everything the library writes to file descriptors 1 and 2
// (standard output, standard error, the default logger) while constructing
// lists and generating - including refused, failing and retried generations -
// is captured and recorded next to the secrets of that run.

import (
	"flag"
	"fmt"
	"io"
	"os"
	"sort"
	"strconv"
	"strings"
	"syscall"

	"go.1password.io/spg"
)

func init() {
	commands["emit"] = cmdEmit
}

func capture(f func()) string {
	r, w, err := os.Pipe()
	if err != nil {
		fatal("pipe: %v", err)
	}
	so, _ := syscall.Dup(1)
	se, _ := syscall.Dup(2)
	syscall.Dup2(int(w.Fd()), 1)
	syscall.Dup2(int(w.Fd()), 2)
	done := make(chan string)
	go func() {
		b, _ := io.ReadAll(r)
		done <- string(b)
	}()
	func() {
		defer func() { recover() }()
		f()
	}()
	syscall.Dup2(so, 1)
	syscall.Dup2(se, 2)
	syscall.Close(so)
	syscall.Close(se)
	w.Close()
	out := <-done
	r.Close()
	return out
}

type EmitEv struct {
	Op       string  `json:"op"`
	ID       int     `json:"id"`
	Kind     string  `json:"kind"`
	Tag      string  `json:"tag"`
	Res      string  `json:"res"`
	Secrets  [][]int `json:"secrets"`  // strings that must not appear in the output
	Chars    []int   `json:"chars"`    // distinctive characters (occur in no message of the library) that must not appear
	Out      []int   `json:"out"`      // captured text
	Rejected int     `json:"rejected"` // rejected candidates among the secrets
	Earlier  int     `json:"earlier"`  // how many of the secrets stem from earlier runs in the same process
}

func distinctive(cps []int) []int {
	seen := map[int]bool{}
	out := []int{}
	for _, c := range cps {
		if c > 0x2FF && !seen[c] { // beyond Latin/IPA: never part of the library's own messages
			seen[c] = true
			out = append(out, c)
		}
	}
	sort.Ints(out)
	return out
}

func cmdEmit(args []string) {
	fs := flag.NewFlagSet("emit", flag.ExitOnError)
	seed := fs.Int64("seed", 1, "")
	scen := fs.String("scen", "", "")
	out := fs.String("out", "emit.ndjson", "")
	shard := fs.Int("shard", 0, "")
	shards := fs.Int("shards", 1, "")
	fs.Parse(args)
	scs := readScenarios(*scen)
	em := NewEmitter(*out)
	// secrets of the most recent runs in this process: a diagnostic may leak what an EARLIER call produced
	var recent [][]int
	for i, sc := range scs {
		if i%*shards != *shard {
			continue
		}
		restore := setEnv(sc.MaxTrials, sc.FailRateOne)
		e := NewEnum(*seed*31 + int64(i))
		e.RejectProb = 0.1
		for path := 0; path < sc.Paths; path++ {
			kind := path
			ev := EmitEv{Op: "emit", ID: i, Kind: sc.Kind, Tag: sc.Tag, Secrets: [][]int{}, Chars: []int{}}
			var res GenRes
			var draws []Draw
			text := ""
			switch sc.Kind {
			case "char":
				sc.Char.norm()
				r := sc.Char.Recipe()
				L := sc.Char.Len
				e.Policy = func(j int, n uint32) uint32 {
					switch {
					case kind == 0:
						return 0 // every attempt draws the first character: fails any requirement it does not meet
					case kind == 1 && j < 2*L:
						return n - 1
					}
					return uint32(e.Rng.Int63n(int64(n)))
				}
				if kind >= 3 {
					e.FailAtRead, e.FailGot = 1+e.Rng.Intn(3*L+1), e.Rng.Intn(4)
					ev.Tag = sc.Tag + "+source-failure"
				}
				var alpha []int
				text = capture(func() {
					alpha = CPs(r.Alphabet())
					_ = r.Entropy()
					_ = r.SuccessProbability()
					var pw *spg.Password
					o := e.Run(nil, func() { p, err := r.Generate(); res = ResOf(p, err, nil); pw = p })
					if o.Panic != nil {
						res = ResOf(nil, nil, o.Panic)
					}
					draws = o.Draws
					codecCalls(pw)
				})
				// candidates, incl. rejected ones, recomputed from the draws (index into the sorted alphabet)
				if L >= 1 && len(alpha) > 0 {
					for k := 0; k+L <= len(draws); k += L {
						c := []int{}
						ok := true
						for _, d := range draws[k : k+L] {
							if int(d.N) != len(alpha) || int(d.I) >= len(alpha) {
								ok = false
								break
							}
							c = append(c, alpha[d.I])
						}
						if ok && len(c) >= 4 {
							ev.Secrets = append(ev.Secrets, c)
							ev.Rejected++
						}
					}
				}
				ev.Chars = distinctive(alpha)
			case "wl":
				sc.WL.norm()
				var wl *spg.WordList
				var r spg.WLRecipe
				var berr error
				e.Policy = func(j int, n uint32) uint32 {
					if kind == 0 {
						return 0
					}
					return uint32(e.Rng.Int63n(int64(n)))
				}
				if kind >= 2 { // the random source fails somewhere inside the generation
					e.FailAtRead, e.FailGot = 1+e.Rng.Intn(2*sc.WL.Len+2), e.Rng.Intn(4)
					ev.Tag = sc.Tag + "+source-failure"
				}
				text = capture(func() {
					r, wl, berr = sc.WL.Build(nil) // NewWordList: the duplicate notice is part of the captured output
					if berr != nil {
						return
					}
					_ = r.Entropy()
					var pw *spg.Password
					o := e.Run(nil, func() { p, err := r.Generate(); res = ResOf(p, err, nil); pw = p })
					if o.Panic != nil {
						res = ResOf(nil, nil, o.Panic)
					}
					draws = o.Draws
					codecCalls(pw)
				})
				all := []int{}
				for _, w := range sc.WL.Words {
					if len(w) >= 3 {
						ev.Secrets = append(ev.Secrets, w)
						ev.Secrets = append(ev.Secrets, CPs(strings.Title(FromCPs(w))))
					}
					all = append(all, w...)
				}
				_ = wl
				if sc.WL.SepRecipe != nil {
					all = append(all, sc.WL.SepRecipe.AllowChars...)
				}
				all = append(all, sc.WL.SepChar...)
				ev.Chars = distinctive(all)
			}
			e.Policy = nil
			e.FailAtRead = 0
			ev.Res = res.Kind
			if res.Kind == "ok" && len(res.Str) >= 4 {
				ev.Secrets = append(ev.Secrets, res.Str)
			}
			for _, t := range res.Toks {
				if len(t.V) >= 3 {
					ev.Secrets = append(ev.Secrets, t.V)
				}
			}
			// the raw random words that selected the characters / words: whoever reads them can redo the selection
			for _, d := range draws {
				for _, w := range d.Raw {
					if w >= 0x100000 {
						ev.Secrets = append(ev.Secrets, CPs(fmt.Sprintf("%x", w)), CPs(fmt.Sprintf("%X", w)))
						if w >= 100000000 {
							ev.Secrets = append(ev.Secrets, CPs(fmt.Sprintf("%d", w)))
						}
					}
				}
			}
			ev.Out = CPs(text)
			if len(ev.Out) > 4000 {
				ev.Out = ev.Out[:4000]
			}
			// a diagnostic may render a secret escaped (%q, %+q): the escaped form of a non-ASCII secret is searched as well
			for _, sct := range append([][]int{}, ev.Secrets...) {
				raw := FromCPs(sct)
				q := strconv.QuoteToASCII(raw)
				q = q[1 : len(q)-1]
				if q != raw {
					ev.Secrets = append(ev.Secrets, CPs(q))
				}
			}
			// a short digits-only secret could coincide with a count or probability in a legitimate diagnostic: not searched
			kept := ev.Secrets[:0]
			for _, sct := range ev.Secrets {
				numeric := true
				for _, c := range sct {
					if !(c >= '0' && c <= '9') && c != '.' && c != '-' && c != 'e' {
						numeric = false
						break
					}
				}
				if !numeric || len(sct) >= 9 {
					kept = append(kept, sct)
				}
			}
			ev.Secrets = kept
			own := len(ev.Secrets)
			if len(ev.Out) > 0 {
				ev.Secrets = append(ev.Secrets, recent...)
			}
			ev.Earlier = len(ev.Secrets) - own
			recent = append(recent, ev.Secrets[:own]...)
			if len(recent) > 60 {
				recent = recent[len(recent)-60:]
			}
			em.Emit(ev)
		}
		restore()
	}
	em.Close()
	fmt.Printf("{\"events\":%d}\n", em.N)
}

// codecCalls runs the token-index functions on a generated password, also with indices that cover less than the string and a
// string longer than the indices (their outcome is C11/C12's business; here only what they write is of interest).
func codecCalls(pw *spg.Password) {
	if pw == nil {
		return
	}
	defer func() { recover() }()
	ix, err := pw.Tokens().MakeIndices()
	if err != nil {
		return
	}
	str := pw.String()
	try := func(s string, i spg.Indices) {
		defer func() { recover() }()
		spg.Tokenize(s, i, pw.Entropy)
	}
	try(str, ix)
	for cut := 1; cut <= 2 && cut < len(ix); cut++ {
		try(str, ix[:len(ix)-cut])
	}
	try(str+str, ix)
	if len(ix) > 1 {
		short := append(spg.Indices{}, ix...)
		short[len(short)-1] = 0
		try(str, short)
	}
}
