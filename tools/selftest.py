#!/usr/bin/env python3
"""Development-time: run checks against seeded mutants in scratch worktrees (never in /repo).
usage: tools/selftest.py [-t quick|thorough] [-s seed,seed] [-c C01,C02 (checks; default = the mutant's property)] <mutant-id|prefix>...
Writes /verif/seeded/matrix.json (mutant x check x seed -> exit, first VIOLATION line)."""
import json, os, subprocess, sys, tempfile, shutil, argparse, concurrent.futures
V = os.path.dirname(os.path.dirname(os.path.abspath(__file__)))
ap = argparse.ArgumentParser()
ap.add_argument("-t", default="quick"); ap.add_argument("-s", default="1"); ap.add_argument("-c", default="")
ap.add_argument("-j", type=int, default=3); ap.add_argument("ids", nargs="*")
a = ap.parse_args()
allm = sorted(d for d in os.listdir(V + "/seeded") if os.path.isfile(V + "/seeded/" + d + "/patch.diff"))
sel = [m for m in allm if not a.ids or any(m.startswith(i) for i in a.ids)]
DPROP = {"D1": "C07", "D2": "C08", "D3": "C11", "D4": "C12", "D5": "C13", "D6": "C17"}
ALL = ["C%02d" % i for i in range(1, 19)]
def prop_of(m):
    return DPROP.get(m.split("-")[0], m.split("-")[0])
def one(job):
    m, chk, seed = job
    wt = tempfile.mkdtemp(prefix="st-%s-" % m, dir="/tmp")
    os.rmdir(wt)
    try:
        subprocess.run(["git", "-C", "/repo", "worktree", "add", "-q", "--detach", wt, "HEAD"], check=True)
        r = subprocess.run(["git", "-C", wt, "apply", V + "/seeded/%s/patch.diff" % m], capture_output=True, text=True)
        if r.returncode != 0:
            return (m, chk, seed, "apply-failed", r.stderr[-200:])
        ev = tempfile.mkdtemp(prefix="st-ev-", dir="/tmp")
        env = dict(os.environ, VERIF_REPO=wt, VERIF_SEED=str(seed), VERIF_EVIDENCE_DIR=ev, VERIF_OUT_DIR=ev)
        r = subprocess.run([V + "/bin/check", chk, a.t], cwd=V, env=env, capture_output=True, text=True, timeout=7200)
        lines = [l for l in r.stdout.split("\n") if l.startswith(("VIOLATION", "  what", "UNDECIDED", "SPEC-DRIFT", "KNOWN"))]
        shutil.rmtree(ev, ignore_errors=True)
        return (m, chk, seed, r.returncode, " | ".join(lines[:3])[:400])
    finally:
        subprocess.run(["git", "-C", "/repo", "worktree", "remove", "--force", wt], capture_output=True)
        shutil.rmtree(wt, ignore_errors=True)
jobs = []
for m in sel:
    for chk in (a.c.split(",") if a.c else (ALL if m.startswith("benign") else [prop_of(m)])):
        for seed in a.s.split(","):
            jobs.append((m, chk, int(seed)))
mpath = V + "/seeded/matrix.json"
try: matrix = json.load(open(mpath))
except Exception: matrix = {}
with concurrent.futures.ThreadPoolExecutor(max_workers=a.j) as ex:
    for res in ex.map(one, jobs):
        m, chk, seed, rc, msg = res
        print("%-28s %s seed=%s tier=%s -> exit %s  %s" % (m, chk, seed, a.t, rc, msg)); sys.stdout.flush()
        # several selftest processes may run at once: merge under a lock instead of rewriting from a stale copy
        import fcntl
        with open(mpath + ".lock", "w") as lk:
            fcntl.flock(lk, fcntl.LOCK_EX)
            try: matrix = json.load(open(mpath))
            except Exception: matrix = {}
            matrix.setdefault(m, {})["%s/%s/seed%s" % (chk, a.t, seed)] = dict(exit=rc, first=msg)
            json.dump(matrix, open(mpath + ".tmp", "w"), indent=1, sort_keys=True)
            os.replace(mpath + ".tmp", mpath)
