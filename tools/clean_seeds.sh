#!/bin/bash
# Development-time: every check's quick tier on the unchanged tree for several seeds (quietness); one line per run.
# usage: tools/clean_seeds.sh "2 3 4" [tier]
cd "$(dirname "$0")/.."
T=${2:-quick}
EV=$(mktemp -d /tmp/clean-ev-XXXX)
for s in $1; do
  for c in ${CHECKS:-$(seq -w 1 18)}; do
    t0=$(date +%s)
    VERIF_SEED=$s VERIF_EVIDENCE_DIR=$EV VERIF_OUT_DIR=$EV timeout 7200 bin/check C$c $T > $EV/one.log 2>&1; rc=$?
    echo "seed=$s C$c $T rc=$rc $(( $(date +%s) - t0 ))s $(grep -v '^Picked' $EV/one.log | tail -n 1 | cut -c1-200)"
    [ $rc != 0 ] && { echo "---- output"; grep -v '^Picked' $EV/one.log | tail -n 15 | cut -c1-400; }
  done
done
rm -rf $EV
