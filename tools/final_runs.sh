#!/bin/bash
# Development-time: quietness over several seeds, the complete seeded matrix, and the thorough tier, one after the other.
cd /verif
LOG=/tmp/final_runs.log
echo "== seeds $(date)" >> $LOG
for s in 2 3 4; do
  for c in $(seq -w 1 18); do
    VERIF_SEED=$s VERIF_EVIDENCE_DIR=/tmp/final-ev VERIF_OUT_DIR=/tmp/final-ev timeout 3000 bin/check C$c quick > /tmp/final-one.log 2>&1; rc=$?
    echo "seed=$s C$c quick rc=$rc $(tail -1 /tmp/final-one.log | cut -c1-160)" >> $LOG
    [ $rc != 0 ] && { echo "---- output"; tail -15 /tmp/final-one.log; } >> $LOG
  done
done
echo "== matrix $(date)" >> $LOG
tools/selftest.py -j 3 C D >> /tmp/final_matrix.log 2>&1
echo "== thorough $(date)" >> $LOG
for c in $(seq -w 1 18); do
  /usr/bin/time -f "C$c thorough %es" env VERIF_EVIDENCE_DIR=/tmp/final-ev-th VERIF_OUT_DIR=/tmp/final-ev-th timeout 7200 bin/check C$c thorough > /tmp/final-one.log 2>&1; rc=$?
  echo "C$c thorough rc=$rc $(tail -2 /tmp/final-one.log | tr '\n' ' ' | cut -c1-220)" >> $LOG
done
echo "== benign $(date)" >> $LOG
tools/selftest.py -j 3 benign >> /tmp/final_benign.log 2>&1
echo "== done $(date)" >> $LOG
