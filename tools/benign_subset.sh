#!/bin/bash
# Development-time: the older behaviour-preserving refactorings against the checks whose rules changed in session 3.
cd "$(dirname "$0")/.."
python3 tools/selftest.py -j 3 -c C01,C02,C04,C06,C09 benign-B1-b benign-B5-b benign-B12-b1
python3 tools/selftest.py -j 3 -c C05,C06,C13,C14,C15,C16,C18 benign-B2-b2 benign-B3-b2 benign-B3-b3 benign-B6-b2 benign-B9-b1 benign-B9-b3 benign-B10-b2 benign-B10-b3 benign-B12-b2 benign-B12-b3
python3 tools/selftest.py -j 3 -c C11,C12 benign-B4-b1 benign-B6-b3 benign-B7-b3 benign-B8-b2 benign-B8-b3 benign-B11-b1
python3 tools/selftest.py -j 3 -c C08,C10,C04 benign-B3-b1 benign-B7-b2 benign-B11-b2
python3 tools/selftest.py -j 3 -c C17 benign-B4-b2 benign-B8-b1
