#!/bin/bash
# Development-time tool: confirm each sub-agent mutant (patch applies, builds, suite passes,
# demo fails with it and passes without) in a scratch worktree, then store it under /verif/seeded.
export GOFLAGS=-mod=mod GOPROXY=off GOSUMDB=off GOTOOLCHAIN=local
SRC=${1:-/tmp/wt}
SUF=${2:-}   # e.g. r2 -> ids C01-r2m1
V=/tmp/wt-verify
git -C /repo worktree remove --force $V 2>/dev/null
git -C /repo worktree add -q --detach $V HEAD || exit 1
cd $V
for d in $SRC/C*/mutants/m*; do
  [ -f $d/patch.diff ] || continue
  prop=$(echo $d | sed 's#.*/\(C[0-9]*\)/mutants/.*#\1#'); m=$(basename $d); id="$prop-$SUF$m"
  git checkout -q -- . ; git clean -fdq
  case "$m" in b*) continue;; esac
  res="ok"
  if ! git apply $d/patch.diff 2>/tmp/wt-verify.err; then echo "$id APPLY-FAIL"; continue; fi
  go build ./... >/dev/null 2>&1 && go build -tags verif ./... >/dev/null 2>&1 || res="BUILD-FAIL"
  suite=0
  for k in 1 2; do go test -vet=off -count=1 . ./cmd/... >/dev/null 2>&1 || suite=$((suite+1)); done
  cp $d/demo_test.go ./zz_demo_test.go
  timeout 300 go test -vet=off -count=1 . > /tmp/wt-verify.mut.log 2>&1; mutrc=$?
  git checkout -q -- . ; rm -f zz_demo_test.go; cp $d/demo_test.go ./zz_demo_test.go
  timeout 300 go test -vet=off -count=1 . > /tmp/wt-verify.clean.log 2>&1; cleanrc=$?
  rm -f zz_demo_test.go
  echo "$id build=$res suitefails=$suite demo_on_mutant_rc=$mutrc demo_on_clean_rc=$cleanrc"
  if [ "$res" = ok ] && [ $suite = 0 ] && [ $mutrc != 0 ] && [ $cleanrc = 0 ]; then
    mkdir -p /verif/seeded/$id && cp $d/patch.diff $d/demo_test.go /verif/seeded/$id/ && cp $d/README.md /verif/seeded/$id/README.md
    python3 - "$id" "$prop" "$d" <<'PY'
import json,sys,re
id,prop,d=sys.argv[1:4]
readme=open(d+'/README.md').read()
meta={"id":id,"breaks":prop,"source":"independent sub-agent given only the property text",
 "needs_to_manifest":readme.strip()[:1500],
 "confirmed":{"applies":True,"builds_with_and_without_tag":True,"suite_passes_with_mutant":"2/2 runs here (agent reported 3/3)","demo_fails_with_mutant":True,"demo_passes_on_clean_tree":True,
 "commands":["git apply patch.diff","go build ./... && go build -tags verif ./...","go test -vet=off -count=1 ./...","cp demo_test.go . && go test -vet=off -count=1 . (fails)","git checkout -- . && go test (passes)"]}}
json.dump(meta,open('/verif/seeded/%s/meta.json'%id,'w'),indent=1)
PY
  fi
done
cd /; git -C /repo worktree remove --force $V
