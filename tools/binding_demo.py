#!/usr/bin/env python3
"""Development-time demonstration that the trace specifications are bound to what was recorded (DESIGN.md 4.3):
record a small accepted trace of the real library, corrupt ONE field, and require TLC to reject it.
usage: tools/binding_demo.py   -> prints one line per corruption, exits 1 if any corruption is accepted."""
import copy, json, os, random, sys
sys.path.insert(0, os.path.join(os.path.dirname(os.path.abspath(__file__)), "..", "bin"))
import vlib
from checks import charfam, wlfam, tokfam

ctx = vlib.Ctx("BIND", "quick")
rng = random.Random(7)
fails = 0


def verdict(module, events, env=None):
    f = ctx.path("bind-%d.ndjson" % random.randrange(10**9))
    with open(f, "w") as fh:
        for e in events:
            fh.write(json.dumps(e) + "\n")
    return ctx.validate(module, f, env=env)["bad"]


def demo(name, module, events, corruptions):
    global fails
    base = verdict(module, events)
    print("%-34s accepted as recorded: %s" % (name, "yes" if not base else "NO %s" % base[:2]))
    if base:
        fails += 1
    for what, fn in corruptions:
        ev = copy.deepcopy(events)
        fn(ev)
        bad = verdict(module, ev)
        ok = bool(bad)
        print("   corrupt %-46s -> %s" % (what, ("rejected: " + bad[0]["why"][:70]) if ok else "ACCEPTED (binding too weak)"))
        if not ok:
            fails += 1


# character cell
uni = charfam.tlc_universe(ctx, 3, 2)
sc = [charfam.concretize(s, rng) for s in uni if s["char"]["len"] == 2 and len(s["char"]["requireSets"]) == 1 and s["maxTrials"] == 2
      and len(set(s["char"]["allowChars"])) == 3 and not s["char"]["excludeChars"]][:1]
files, _, _ = charfam.run_scenarios(ctx, sc, "bind", shards=1)
ev = vlib.read_ndjson(files[0])
leaf_ok = next(i for i, e in enumerate(ev) if e["op"] == "leaf" and e["res"]["kind"] == "ok")


def flip_char(e):
    e[leaf_ok]["res"]["toks"][0]["v"][0] += 1
    e[leaf_ok]["res"]["str"][0] += 1


def change_index(e):
    d = e[leaf_ok]["d"]
    d[0][1] = (d[0][1] + 1) % d[0][0]


demo("character cell", "CharTrace", ev, [
    ("one character of one returned password", flip_char),
    ("one recorded draw index", change_index),
    ("drop one leaf", lambda e: e.pop(leaf_ok)),
    ("reported entropy (mantissa + 1)", lambda e: e[0]["ent"].__setitem__("m", e[0]["ent"]["m"] + 2)),
    ("Alphabet() (drop last character)", lambda e: e[0]["alpha"].pop()),
    ("exact count (+1)", lambda e: e[0]["count"].__setitem__(0, e[0]["count"][0] + 1 if e[0]["count"] else 1)),
    ("limits differed during the call (cfg = 1)", lambda e: e[leaf_ok].__setitem__("cfg", 1)),
    ("Atoms() (one value dropped)", lambda e: e[leaf_ok]["res"]["atoms"].pop()),
    ("an error value that changed later (errChg = 1)", lambda e: e[0].__setitem__("errChg", 1)),
])
# wordlist cell
ws = [wlfam.tree_scen(rng, uniform_only=True, budget=300) for _ in range(1)]
ws[0]["wl"]["cap"] = "one"
ws[0]["wl"]["len"] = 2
files, _, _ = wlfam.run_scenarios(ctx, ws, "bindw", shards=1)
ev = vlib.read_ndjson(files[0])
li = next(i for i, e in enumerate(ev) if e["op"] == "wleaf" and e["res"]["kind"] == "ok")
demo("wordlist cell", "WordTrace", ev, [
    ("one character of one atom", lambda e: (e[li]["res"]["toks"][0]["v"].__setitem__(0, e[li]["res"]["toks"][0]["v"][0] + 1), e[li]["res"]["str"].__setitem__(0, e[li]["res"]["str"][0] + 1))),
    ("drop one leaf", lambda e: e.pop(li)),
    ("kept list (drop a word)", lambda e: (e[0]["kept"].pop(), e[0]["keptTitles"].pop())),
    ("Size() + 1", lambda e: e[0].__setitem__("size", e[0]["size"] + 1)),
    ("entropy exponent + 1", lambda e: e[0]["ent"].__setitem__("e", e[0]["ent"]["e"] + 1)),
    ("product of the run's draw bounds (1: the run itself likelier than 2^-Entropy)", lambda e: (e[li].__setitem__("pp", [1]), e[li].__setitem__("ppc", 1))),
    ("Separators() (a value added)", lambda e: e[li]["res"]["seps"].append([45])),
])
# sampled marginals
ms = wlfam.marg_scenarios()[2:3]
sf = ctx.path("bind-marg.ndjson")
open(sf, "w").write(json.dumps(ms[0]) + "\n")
ctx.drv("marg", "-seed", 1, "-scen", sf, "-out", ctx.path("bind-marg-out.ndjson"))
ev = vlib.read_ndjson(ctx.path("bind-marg-out.ndjson"))


def skew(e):
    m = e[0]["mod8"][3]
    m[0] += 1500
    m[1] -= 1500


demo("sampled marginals", "MargTrace", ev, [
    ("one position: 1500 of 20000 samples moved to another word", skew),
    ("a symbol outside the list", lambda e: e[0].__setitem__("foreign", 1)),
])
# bounded draw: pair rule and a draw that does not end
pair = dict(op="pair", n=[0, 0, 3], k=0, w1=[5], w2=[5, 0, 3], used1=1, used2=2, kind1="ok", kind2="ok", res1=[5], res2=[7])
demo("two raw words at one position", "DrawTrace", [pair], [
    ("x + n accepted too, same result", lambda e: (e[0].__setitem__("used2", 1), e[0].__setitem__("res2", [5]))),
])
# token round trip
files, _ = tokfam.run(ctx, [dict(op="rt", toks=[dict(v=[97, 233], t=1), dict(v=[45], t=0), dict(v=[128512], t=1)])], "bindt")
ev = vlib.read_ndjson(files[0])
demo("token round trip", "TokTrace", ev, [
    ("one index byte", lambda e: e[0]["enc"]["idx"].__setitem__(1, e[0]["enc"]["idx"][1] + 1)),
    ("decoded token type", lambda e: e[0]["dec"]["toks"][1].__setitem__("t", 1)),
])
print("binding demo:", "OK" if not fails else "%d problems" % fails)
sys.exit(1 if fails else 0)
