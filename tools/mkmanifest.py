#!/usr/bin/env python3
"""Regenerates MANIFEST.json from the table below (kept in one place so it stays valid)."""
import json, os, subprocess
V = os.path.dirname(os.path.dirname(os.path.abspath(__file__)))
HOOK_COMMITS = ["c1ebfac"]
CHECKS = {
 "C01": dict(cat="model_checking", ref="DESIGN.md section 5 C01",
   tech="TLA+ Draw.tla: TLC exhaustive over all bounds/words at small widths + Apalache lemma at width 32; TLC trace validation of directed draws of the real sampler; full 2^32 sweeps of the real sampler validated by TLC",
   text="Draw.tla is model-checked exhaustively (every bound, every raw word, rejection chains, short reads, faults) for widths up to 6 (thorough 10) and its threshold lemma is proved by Apalache for all n in [1,2^32) at the real width. The real randomUint32n is bound to it by TLC validation of thousands of recorded draws (threshold, comparison, mask, byte order, word width pinned per event) and the counting statement itself is measured on the real code by presenting all 2^32 raw words (first word and continuation after a rejection) for selected bounds; deviations from the specified sampler shape are decided exactly by such sweeps before any alarm.",
   note="Trusts Apalache/Z3 for the lemma, TLC, the harness's scripted crypto/rand.Reader and limb/witness projection (witnesses are re-checked by TLC by multiplication). Bounds that are not swept rely on the shaped relation + lemma."),
}
PLANNED = {}
props = [json.loads(l) for l in open(V + "/properties.jsonl")]
checks, na = [], []
for p in props:
    c = CHECKS.get(p["id"])
    if not c:
        na.append(dict(property_id=p["id"], reason=PLANNED.get(p["id"], "check not yet built in this round (design in DESIGN.md section 5); not claimed until it runs clean on the unchanged tree")))
        continue
    checks.append(dict(property_id=p["id"], quick_cmd="bin/check %s quick" % p["id"], thorough_cmd="bin/check %s thorough" % p["id"],
        evidence_file="/verif/evidence/%s.json" % p["id"], replay_cmd_template="bin/check --replay {path}", engine="spg-tla",
        level_claimed=dict(category=c["cat"], text=c["text"], design_ref=c["ref"]), level_note=c["note"], technique=c["tech"]))
m = dict(version=1,
  setup_cmd="cd /verif/harness && GOFLAGS=-mod=mod GOPROXY=off GOSUMDB=off GOTOOLCHAIN=local go build -tags verif -o /dev/null . && cd /repo && GOFLAGS=-mod=mod GOPROXY=off GOSUMDB=off GOTOOLCHAIN=local go build ./... ",
  hooks=dict(guard="verif", enable="go build -tags verif (the harness module /verif/harness replaces go.1password.io/spg => /repo)",
             baseline_off_cmd="cd /repo && GOFLAGS=-mod=mod GOPROXY=off GOSUMDB=off GOTOOLCHAIN=local go test -vet=off -count=1 -json ./...",
             source_commits=HOOK_COMMITS, add_only=True),
  engines=[dict(name="spg-tla", path="/verif/bin/check", serves_properties=[c["property_id"] for c in checks],
                kind_free_text="explicit TLA+ specification (/verif/spec) checked by TLC and Apalache; Go conformance harness (/verif/harness) replays scenarios into the real library under a scripted crypto/rand.Reader and records NDJSON traces that TLC validates against the specification")],
  checks=checks, not_applicable=na,
  notes="Exit 0 = held on everything explored; exit 1 + VIOLATION line = observed on the real code and rejected by the specification's property-level relation; exit 2 = undecided (tool failure, time-out, model-only counterexample). known_findings.json lists genuine defects (all six found so far were repaired by fix: commits in /repo).")
json.dump(m, open(V + "/MANIFEST.json", "w"), indent=1)
print("checks:", len(checks), "not_applicable:", len(na))
