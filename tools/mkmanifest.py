#!/usr/bin/env python3
"""Regenerates MANIFEST.json from the table below (kept in one place so it stays valid)."""
import json, os, subprocess
V = os.path.dirname(os.path.dirname(os.path.abspath(__file__)))
HOOK_COMMITS = ["c1ebfac"]
CHECKS = {
 "C01": dict(cat="model_checking", ref="DESIGN.md section 5 C01",
   tech="TLA+ Draw.tla: TLC exhaustive over all bounds/words at small widths + Apalache lemma at width 32; TLC trace validation of directed draws of the real sampler; full 2^32 sweeps of the real sampler validated by TLC",
   text="Draw.tla is model-checked exhaustively (every bound, every raw word, rejection chains, short reads, faults) for widths up to 6 (thorough 10) and its threshold lemma is proved by Apalache for all n in [1,2^32) at the real width. The real randomUint32n is bound to it by TLC validation of thousands of recorded draws (threshold, comparison, mask, byte order, word width pinned per event) and the counting statement itself is measured on the real code by presenting all 2^32 raw words (first word and continuation after a rejection) for selected bounds; deviations from the specified sampler shape are decided exactly by such sweeps before any alarm.",
   note="Trusts Apalache/Z3 for the lemma, TLC, the harness's scripted crypto/rand.Reader and limb/witness projection (witnesses are re-checked by TLC by multiplication). Bounds that are not swept rely on the shaped relation + lemma."),
 "C02": dict(cat="model_checking", ref="DESIGN.md section 5 C02",
   tech="TLA+ CharGen.tla model-checked by TLC; exact output distribution of the real Generate by choice-tree enumeration under a scripted random source; TLC trace validation sums leaf masses per output (CharTrace.tla)",
   text="CharGen.tla (one action per guard/draw/filter of CharRecipe.Generate) is model-checked over a recipe universe with every overlap pattern: one index tuple per valid string, count = |ValidStrings|, a rejected candidate is discarded entirely. The real Generate is bound to it by enumerating its complete choice tree (every index of every draw, 1-3 attempts) for TLC-generated and seeded recipes incl. multi-byte and duplicated characters; TLC sums the exact leaf masses per output string and requires support = the specification's valid set and all masses equal, and replays the CharGen machine along every recorded index path. The bounds those recipes draw with are checked against Draw.tla and decided by full 2^32 sweeps if they deviate.",
   note="Exact for the small recipes enumerated (alphabets <= ~50, lengths <= 3); relies on C01 for index -> probability 1/n and on the verif hook that pins the otherwise per-call alphabet order."),
 "C03": dict(cat="model_checking", ref="DESIGN.md section 5 C03",
   tech="TLA+ CharSets.tla theorems model-checked over all 2^15 class-flag triples; TLC trace validation of the real Alphabet() and Generate outputs by membership",
   text="CharSets.tla defines the alphabet and validity of a recipe; TLC checks 'exclusion wins', 'alphabet = (allowed + required) - excluded', sortedness and duplicate-freedom over all 2^15 allow/require/exclude triples x custom-string variants, and OutValid on the CharGen machine. The real library is bound to it: for flag triples (thorough: all 32768) x custom variants (multi-byte, duplicates, overlaps) x lengths 1..40 the real Alphabet() and Generate are run on tapes forcing the first index, the last index, failing first attempts and seeded paths, and every recorded alphabet, token sequence and string is validated by TLC against the specification.",
   note="Membership checks, not enumeration, for large alphabets; string projection to code points by the harness is trusted."),
 "C07": dict(cat="model_checking", ref="DESIGN.md section 5 C07",
   tech="TLA+ CharCount.tla (inclusion-exclusion over BigNat, integer-only log2 bracket) model-checked against brute-force enumeration; TLC trace validation of the real exact count and Entropy()",
   text="The counting formula is model-checked against its definition (|ValidStrings| by brute force) for every overlap pattern of up to 3 required sets; BigNat and the outward-rounded log2 bracket are self-checked by TLC. For TLC-generated and seeded real-class recipes (0-8 required sets overlapping each other and the class flags, lengths to 64) TLC recomputes the exact count and requires the library's big-integer count to be equal and Entropy() to be within 2 float32 ulps of log2(count), never NaN, -Inf iff no string satisfies the recipe, identical on repeated calls; lengths 100-5000 are compared by 12 modular fingerprints.",
   note="Long lengths are a fingerprint comparison, not an identity; the log2 bracket is TLC-checked only on small arguments and known constants."),
 "C13": dict(cat="model_checking", ref="DESIGN.md section 5 C13",
   tech="TLA+ CharGen.tla/WordGen.tla ErrIff, TrialsBounded model-checked; TLC trace validation of real Generate outcomes (ok / error class / panic), attempt counts and SuccessProbability against the exact fraction",
   text="ErrIff (error exactly for non-positive length, empty alphabet, missing/empty list, or an unacceptable failure rate), TrialsBounded and 'no panic without a source fault' are invariants of the generator machines, model-checked with MaxFailRate = 1 and with the default refusal band. The real Generate is run for zero values, non-positive lengths, empty alphabets, overlapping/equal/emptied required sets, a ladder of recipes across the refusal threshold, attempt budgets 1..350 on tapes where every attempt fails, and wordlist recipes without or with empty lists and failing separators; TLC validates every recorded outcome, the number of draws (<= MaxTrials x Length) and SuccessProbability() against count/|A|^L.",
   note="The refusal rule is decided as a band (must refuse <= 0.085, must not >= 0.11); a required set emptied by exclusion: both outcomes accepted."),

 "C04": dict(cat="model_checking", ref="DESIGN.md section 5 C04",
   tech="TLA+ WordGen.tla counting invariants model-checked by TLC; exact output distribution of the real WLRecipe.Generate by choice-tree enumeration; TLC compares it with the image of WordGen's uniform independent choices (WordTrace.tla)",
   text="WordGen.tla (one action per draw of WLRecipe.Generate, incl. the separator call made by Entropy()) is model-checked: every password of an all-capitalisable list has exactly one choice path and their number is size^L x capitalisations x separators^(L-1). The real Generate is bound to it by enumerating its complete choice tree for seeded lists (2-7 words, multi-byte, twins, uncapitalisable words), lengths 1-3, all schemes, constant/empty/preset-like/custom/caller-written separators; TLC sums exact leaf masses per token sequence and requires them to equal the image of uniform, independent word/capitalisation/separator choices computed from the specification (equality, or an interval when a run had to be abandoned), and replays the WordGen machine along every index path. Bounds used (incl. 18325, 10129) are checked against Draw.tla.",
   note="Exact for small lists only; the shipped lists are covered through their sizes at the draw level; separator recipes with requirements are checked for structure only; relies on C01."),
 "C05": dict(cat="model_checking", ref="DESIGN.md section 5 C05",
   tech="TLA+ WordGen.tla structure invariants model-checked; TLC trace validation of every recorded token sequence of the real Generate against the structure relation and the WordGen machine",
   text="OutStructure/CapsShape (exactly Length atoms, title-cased exactly at positions of the shape the scheme prescribes, one separator between adjacent atoms iff non-empty, none leading/trailing) are invariants of WordGen.tla, model-checked incl. L = 1, unknown schemes, empty and functional-empty separators. Every leaf of complete choice trees of the real Generate and forced paths (first/last index) on a 606-word list are validated by TLC against the same relation on concrete text (existential over capital positions), plus String() = concatenation and Atoms()/Separators() = the typed values in order (also on every token round trip of C11).",
   note="Title-casing of each word is supplied by the harness from the standard library; lists containing the empty string are outside the domain."),
 "C06": dict(cat="model_checking", ref="DESIGN.md section 5 C06",
   tech="TLA+ MinEntropyHolds/UniformWhenCapitalisable model-checked; exact max-probability per recipe from choice trees of the real code compared by TLC with 2^-Entropy() via an integer-only log2 bracket",
   text="For complete choice trees of the real Generate of both kinds (character recipes with overlapping/duplicated required sets and retries; wordlist recipes with uncapitalisable and pre-capitalised words under every scheme and functional separators) TLC computes the exact probability of the likeliest token sequence and requires Entropy() <= log2(1/pmax) (+ float32 tolerance), equality where the cell is uniform, and Password.Entropy bit-identical to Entropy() on every leaf. The model-level counterpart (no password has more than |Paths|/EntropyCount paths) is model-checked on WordGen.",
   note="Small recipes only; tolerance 2-4 float32 ulp; separator recipes with requirements are excluded from the bitwise Password.Entropy comparison because Entropy() draws a separator."),
 "C08": dict(cat="model_checking", ref="DESIGN.md section 5 C08",
   tech="TLA+ WordListCtor.tla under every map-iteration order model-checked (with a refuted shipped-variant as non-vacuity witness); TLC trace validation of real Entropy() values across repeated, permuted constructions against the exact formula",
   text="WordListCtor.tla lets the environment choose every visiting order of NewWordList's deleting pass: TLC verifies that the uncapitalisable count is order-independent for the repaired code and finds the two-order counterexample for the code as shipped. Real recipes (twin/uncapitalisable/seeded lists x schemes x separators) are constructed hundreds to thousands of times from permuted and repeated input; TLC checks every distinct observed Entropy() against log2(size^L x capitalisation factor x separator count^(L-1)) (bonus iff every kept word changes under title-casing) and bit-identity across calls and constructions.",
   note="Real iteration orders are sampled, not enumerated; tolerance 4 ulp."),
 "C10": dict(cat="model_checking", ref="DESIGN.md section 5 C10",
   tech="TLA+ WordListCtor.tla (all visiting/collect orders) model-checked; TLC trace validation of kept set, Size(), caller's slice and generated atoms of the real NewWordList against KeptSpec",
   text="KeptIsSpec, InputUntouched, ErrOnlyForEmpty hold in WordListCtor.tla under every order the environment can choose. For directed (twins in both orders, acronyms, camel case, digraphs, spaced/hyphenated words) and seeded input lists the real NewWordList is run 200-3000 times on permuted/repeated input and generated from; TLC checks kept = input set minus title-cased twins, no duplicates, Size(), untouched caller slice, identical outcome across constructions, and every atom is a kept word or its title-cased form.",
   note="strings.Title per word is an environment function supplied by the harness."),
 "C11": dict(cat="model_checking", ref="DESIGN.md section 5 C11",
   tech="TLA+ Tokens.tla (RoundTrip, DocumentedSize, NeverLossy) exhaustively model-checked; TLC-generated token universe replayed on the real MakeIndices/Tokenize and validated by TLC",
   text="Tokens.tla specifies Kind, MakeIndices and Tokenize; RoundTrip/DocumentedSize/NeverLossy are model-checked for every token sequence of the bounded universe. TLC writes that universe as scenarios; the harness builds each sequence through the public API, encodes and decodes it with the real code, also for passwords generated by real recipes (ASCII/non-ASCII) and tokens of 1..512 characters; TLC validates values, types, entropy, index size and 'error instead of a lossy index'.",
   note="Zero-length tokens are outside the premise."),
 "C12": dict(cat="model_checking", ref="DESIGN.md section 5 C12",
   tech="TLA+ Tokens.tla TotalOK exhaustively model-checked; TLC-generated (index, string) universe plus seeded damaged indices replayed on the real Tokenize with recover and validated by TLC",
   text="TotalOK (error, or consecutive slices with exactly the counts and types the index specifies; errors for empty index, unknown kind, truncated pair, lengths beyond the string) is model-checked for every index of up to 5-6 bytes x every short string. The same universe, every kind byte 0..255, indices of every length/parity, invalid UTF-8 and damaged valid indices are run on the real Tokenize under recover; TLC validates each result; a recovered panic has no counterpart in the specification.",
   note="Strings are projected to code points by the harness; invalid bytes that could merge into a valid sequence are not generated."),
}
PLANNED = {}
props = [json.loads(l) for l in open(V + "/properties.jsonl")]
checks, na = [], []
for p in props:
    c = CHECKS.get(p["id"])
    if not c:
        na.append(dict(property_id=p["id"], reason=PLANNED.get(p["id"], "check not yet built in this round (design in DESIGN.md section 5); not claimed until it runs clean on the unchanged tree")))
        continue
    checks.append(dict(property_id=p["id"], quick_cmd="bin/check %s quick" % p["id"], thorough_cmd="bin/check %s thorough" % p["id"],
        evidence_file="/verif/evidence/%s.json" % p["id"], replay_cmd_template="bin/check --replay {path}", engine="spg-tla",
        level_claimed=dict(category=c["cat"], text=c["text"], design_ref=c["ref"]), level_note=c["note"], technique=c["tech"]))
m = dict(version=1,
  setup_cmd="cd /verif/harness && GOFLAGS=-mod=mod GOPROXY=off GOSUMDB=off GOTOOLCHAIN=local go build -tags verif -o /dev/null . && cd /repo && GOFLAGS=-mod=mod GOPROXY=off GOSUMDB=off GOTOOLCHAIN=local go build ./... ",
  hooks=dict(guard="verif", enable="go build -tags verif (the harness module /verif/harness replaces go.1password.io/spg => /repo)",
             baseline_off_cmd="cd /repo && GOFLAGS=-mod=mod GOPROXY=off GOSUMDB=off GOTOOLCHAIN=local go test -vet=off -count=1 -json ./...",
             source_commits=HOOK_COMMITS, add_only=True),
  engines=[dict(name="spg-tla", path="/verif/bin/check", serves_properties=[c["property_id"] for c in checks],
                kind_free_text="explicit TLA+ specification (/verif/spec) checked by TLC and Apalache; Go conformance harness (/verif/harness) replays scenarios into the real library under a scripted crypto/rand.Reader and records NDJSON traces that TLC validates against the specification")],
  checks=checks, not_applicable=na,
  notes="Exit 0 = held on everything explored; exit 1 + VIOLATION line = observed on the real code and rejected by the specification's property-level relation; exit 2 = undecided (tool failure, time-out, model-only counterexample). known_findings.json lists genuine defects (all six found so far were repaired by fix: commits in /repo).")
json.dump(m, open(V + "/MANIFEST.json", "w"), indent=1)
print("checks:", len(checks), "not_applicable:", len(na))
