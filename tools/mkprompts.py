#!/usr/bin/env python3
"""Development-time: writes the prompts given to independent sub-agents that seed breaking / benign changes.
usage: mkprompts.py <round-dir, e.g. /tmp/wt4>   (worktrees <dir>/C01.. and <dir>/B1.. must exist)"""
import json,os,glob,sys
RD=sys.argv[1]
props={}
for l in open('/verif/properties.jsonl'):
    p=json.loads(l); props[p['id']]=p
base='''You are helping to evaluate a verification framework by seeding realistic bugs. Work ONLY inside the scratch git worktree __WT__ (a checkout of the Go library 1Password/spg, module go.1password.io/spg). Never read or modify /repo or /verif, and do not look at anything under /verif.

In every shell call first run: export GOFLAGS=-mod=mod GOPROXY=off GOSUMDB=off GOTOOLCHAIN=local   (the sandbox has no network; go is 1.23).
The existing test suite is run with:  cd __WT__ && go test -vet=off -count=1 . ./cmd/...

Here is a semantic property the library is supposed to satisfy:

-----
__PROP__
-----

Earlier rounds already produced these changes for this property (do NOT repeat them or close variants of them; find different code sites / different mechanisms / different clauses of the property):
__PREV__

Your task: produce THREE new, different, independent source changes ("mutants") to the library (non-test .go files in __WT__, including cmd/opgen if relevant) such that each one
  (a) still compiles (both `go build ./...` and `go build -tags verif ./...`), and the existing test suite, unedited, still passes (run it at least 3 times, since tests use real randomness);
  (b) BREAKS the property above; and
  (c) is SUBTLE: it needs something specific to manifest - a particular random draw or stream, an unusual input/configuration, a multi-step sequence of calls, a particular interleaving or fault at a particular point, or two cooperating code sites that each look fine alone - NOT something ordinary use would expose at once. Aim for changes that a reviewer could plausibly approve (a refactoring, an "optimisation", a well-meant "fix", a new cache), small diffs, and that violate the property only in a corner of the input/stream space (e.g. only for non-ASCII text, only for certain lengths or set overlaps, only on the k-th retry, only when two fields are combined, only after a certain earlier call).
Do not edit or delete the files verif_hooks.go / verif_nohooks.go or the two one-line hook calls (verifOnDraw, verifCanonAlphabet); leave the hook calls in place in any function you change. Do not edit existing *_test.go files.

For each mutant k = 1,2,3 create a directory __WT__/mutants/m<k>/ containing:
  - patch.diff : the change as a unified diff produced by `git diff` against the clean worktree (only library source changes; must apply with `git apply` to a clean checkout of the same commit);
  - demo_test.go : a self-contained Go test file (package spg or spg_test; for CLI mutants it may build and run ./cmd/opgen) that, when copied into the repository root, FAILS with the mutant applied and PASSES on the clean tree. Deterministic or overwhelmingly likely (e.g. replace crypto/rand.Reader with a scripted reader, or loop enough). Up to ~60 s.
  - README.md : which part of the property it breaks, and exactly what is needed for it to manifest.
Also create __WT__/mutants/go.mod containing the single line `module mutants` so that the demo files are not picked up by `go test ./...`.
Workflow per mutant: make the change, run the suite 3 times, write the demo, confirm it fails; save `git diff` (library files only) as patch.diff; then `git checkout -- .` to restore the clean tree, and confirm the demo passes on the clean tree (copy the demo into the root temporarily, run `go test -vet=off -count=1 -run <YourTestName> .`, remove it). Leave the worktree clean at the end except for the untracked mutants/ directory. Do not commit anything.

Finish with a short report: for each mutant one line on what it changes and what it needs to manifest, and confirm (a), (b) and the clean-tree pass were actually observed.
'''
for pid,p in props.items():
    prev=[]
    for d in sorted(glob.glob('/verif/seeded/%s-*m*/README.md'%pid)):
        t=open(d).read().strip().replace('\n',' ')
        prev.append('- '+t[:300])
    text="%s — %s\n\n%s\n\nQuantified over: %s"%(pid,p['title'],p['statement'],p['quantifier']['text'])
    open(RD+'/%s.prompt.txt'%pid,'w').write(base.replace('__WT__',RD+'/'+pid).replace('__PROP__',text).replace('__PREV__','\n'.join(prev)))
allp="\n\n".join("%s — %s\n%s"%(pid,p['title'],p['statement']) for pid,p in props.items())
ben='''You are helping to evaluate a verification framework for the Go library 1Password/spg by producing BEHAVIOUR-PRESERVING changes: refactorings that alter the internal structure of the code substantially while keeping every listed property true. (They are used to make sure the verification raises no false alarm.) Work ONLY inside the scratch git worktree __WT__. Never read or modify /repo or /verif, and do not look at anything under /verif.

In every shell call first run: export GOFLAGS=-mod=mod GOPROXY=off GOSUMDB=off GOTOOLCHAIN=local   (no network; go 1.23). Test suite: cd __WT__ && go test -vet=off -count=1 . ./cmd/...

These are the properties that must all REMAIN TRUE after your change:

-----
__ALL__
-----

Theme for your three changes: __THEME__

Produce THREE independent changes (each a separate patch against the clean tree). Each must compile with and without `-tags verif`, pass the unedited test suite (3 runs), and keep all properties above true - think hard about each property before you finish; if in doubt, make the change more conservative. They should nevertheless be real structural changes (different order of operations, different algorithm with the same distribution, different internal data structures, reworded messages, extra count-only diagnostics), not cosmetic renames.
Do not edit or delete verif_hooks.go / verif_nohooks.go; keep the hook call `verifOnDraw(n)` as the first statement after the n < 1 check of randomUint32n (any function that returns a uniformly distributed number in [0,n) for callers must still be reached through randomUint32n so that the hook sees every bounded draw), and keep `chars = verifCanonAlphabet(chars)` right after the alphabet list is built in CharRecipe.Generate. Do not edit existing *_test.go files.

For each change k = 1,2,3 create __WT__/mutants/b<k>/ with patch.diff (from `git diff`, library files only, applies with `git apply` on the clean commit) and README.md (what changed, and for each property that could be affected a one-line argument why it still holds). Also create __WT__/mutants/go.mod containing `module mutants`. Restore the clean tree (`git checkout -- .`) after saving each patch; do not commit.
Finish with a short report listing the three changes.
'''
themes=["caching and precomputation done RIGHT: precompute at construction time (e.g. NewWordList stores the title-cased form of every kept word and the capitalisable count in the WordList it returns, immutable afterwards), sync.Once-guarded lazily built lookup tables that are keyed by nothing (package constants such as the class table) and never depend on earlier calls, per-call scratch buffers; NO process-wide state that depends on which recipes were used before, nothing shared that is written after construction; results bit-identical",
 "numerics and bookkeeping: compute the character-recipe count with a different exact algorithm (big.Int only; e.g. inclusion-exclusion grouped by union, or dynamic programming over the required sets) and the entropy from it exactly as before (same float32 result up to at most one unit in the last place), count attempts/draws with differently structured loops (same number of attempts, same order of draws), compute SuccessProbability from exact big rationals rounded once at the end (may differ from the old float32 value by at most a few ulp, never across the refusal threshold for recipes whose exact success probability is outside 0.097..0.100)",
 "defensive programming: validate inputs early (errors for exactly the same inputs as before), defensive copies of caller-supplied slices and strings, explicit bounds checks that turn impossible states into errors, named constants instead of literals, recover-free code paths, splitting long functions into helpers, replacing deprecated calls by equivalent ones ONLY where equivalence holds for every Unicode string (if in doubt keep the old call), more precise doc comments",
 "the random-source boundary and separators: obtain random bytes through a tiny internal interface (still crypto/rand.Reader underneath, still 4-byte big-endian words, read in order, exactly as many words as before), restructure NewSFFunction/sfWrap and the seven presets as table-driven code (same alphabets, same entropies, same error behaviour: a failing separator recipe yields the empty separator with entropy 0), restructure WLRecipe.Entropy (it still calls the separator function exactly once per call, before anything else it did before)"]
themes4=["the attempt limits done right: every call reads MaxTrials and MaxFailRate ONCE at its start into locals (a small unexported struct passed down to the gate and the retry loop), never writes them and never keeps them between calls; hasAcceptableFailRate restructured (e.g. compare logarithms: MaxTrials*log1p(-p) <= log(MaxFailRate)) so that it takes the same decision as before for every recipe whose success probability is not within 0.01% of the threshold; the retry loop makes exactly the same attempts in the same order",
 "error values and diagnostics done right: every error returned by the library is a FRESH value per call (typed errors such as *LengthError, *FailRateError with the same message text as before, errors.Is/As support, %w wrapping), nothing shared or mutable between calls; diagnostics (duplicate notice, impossible-alphabet and rounding warnings) routed through one small unexported helper writing exactly the same text to the same stream as before",
 "Password and the token codec restructured: Password.String() built with strings.Builder from the tokens (same bytes for every token sequence incl. invalid UTF-8 and empty tokens), Atoms()/Separators() in one pass, Kind() computed in a single pass over the tokens WITHOUT any memo, MakeIndices/Tokenize with explicit rune iteration (utf8.DecodeRuneInString, every invalid byte one character exactly as strings.Split(s, \"\") does) and precomputed offsets; identical results, errors and index bytes for every input",
 "word lists and separators restructured: NewWordList as a single ordered pass plus a lookup set with the CORRECT twin rule (drop w when w == strings.Title(v) for some other listed v != w; never use ToLower), defensive copy of the input, preallocated slices, unCapitalizableCount computed after removal; WLRecipe.Generate split into helpers (capitalisation plan AFTER the list/length checks, separator source chosen exactly as before: SeparatorFunc if non-nil else the constant SeparatorChar); the seven presets built from one table"]
if os.environ.get('THEMESET')=='4': themes=themes4
for i,t in enumerate(themes,int(os.environ.get('BSTART','1'))):
    if not os.path.isdir(RD+'/B%d'%i): continue
    open(RD+'/B%d.prompt.txt'%i,'w').write(ben.replace('__WT__',RD+'/B%d'%i).replace('__ALL__',allp).replace('__THEME__',t))
print(open(RD+'/C05.prompt.txt').read()[1400:3600])
